/* h_robust.c - driver of the robust engine (C18: truncated files / failing sinks, C04: malformed files).
 *
 * One case per input line, one canonical result line per case.  Cases that may crash run in a forked
 * child (ASan+UBSan+LSan build); the parent classifies how the child ended:
 *
 *   OK ...            the call sequence completed, every failure was reported as an error
 *   FAULT <kind> <where> ...   sanitizer report / signal / hang / leak, with the first carquet frame
 *
 * Operations
 *   gen <spec> <path>                      write a table with carquet's writer            -> OK <size> <fnv>
 *   genblob <codec> <path> <hex>...        one REQUIRED BYTE_ARRAY column with the given values, one row group
 *   cuts <path> <tmp> <from> <to>          open every prefix of length from..to-1 in three modes
 *                                          -> OK <cut>:<c0>,<c1>,<c2> ...   (0 = accepted)
 *   parse <hex>                            parquet_parse_file_metadata + build_schema on the region -> OK <code>
 *   sink <spec> <owns> <buf> <plan> <tmp>  run the write history against a failing sink
 *                                          -> OK st=<s0,s1,..> sinkfail=<0|1> n=<bytes> fnv=<hash> calls=<n> wops=<n>
 *   abort <spec> <owns> <step> <tmp>       run the history up to <step>, then carquet_writer_abort
 *                                          -> OK exists=<0|1> leak=<0|1>
 *   wmisc <tmp>                            C18: writer entry states the history does not reach: create on a path that
 *                                          cannot be opened (NULL + error record, no file), options == NULL on both
 *                                          create variants (defaults; the file written must open), write_batch with a
 *                                          column index out of range (error, writer still usable)
 *   read <mode> <script> <path>            C04: open + API call sequence on a (mutated) file
 *                                          -> OK/ERR/FAULT ...
 *   longerr <len> <path>                   C04: error records built from long caller-supplied text: unopenable paths
 *                                          of <len> characters (fread, mmap) and a projection by a column name of
 *                                          <len> characters on the valid file <path>: every failure must carry a
 *                                          non-OK code and a message terminated inside its array
 *   probe <mode> <path>                    C04 tie: the decisions PageBoundsModel makes, observed one by one:
 *                                          metadata dump, get_column codes, for every chunk the page-header
 *                                          parser's verdict on the header window(s) and the status of the first
 *                                          page load
 *
 * <spec> = schema:codec:rows:rowgroups:seed       schema in {a,b,c,d}
 * <plan> = none | byte:<L> | op:<k>:<a>[:p] | closefail | call:<k>      (see below)
 * Uses internal headers (reader_internal.h for the leaf -> schema element map the library itself uses,
 * thrift/parquet_types.h for the direct footer parse).  stdio calls made by the library objects are
 * routed through __wrap_fwrite/fflush/fclose/ferror (link with -Wl,--wrap=...) for call-level injection. */
#define _GNU_SOURCE
#include "hcommon.h"
#include <carquet/carquet.h>
#include "reader/reader_internal.h"
#include "thrift/parquet_types.h"
#include <unistd.h>
#include <errno.h>
#include <fcntl.h>
#include <signal.h>
#include <time.h>
#include <sys/wait.h>
#include <sys/mman.h>
#include <sys/stat.h>
#include <sys/time.h>
#include <sys/resource.h>

extern int __lsan_do_recoverable_leak_check(void);

/* ------------------------------------------------------------------------------------------ utilities */

static uint64_t fnv1a(const uint8_t* p, size_t n) {
    uint64_t h = 1469598103934665603ULL;
    for (size_t i = 0; i < n; i++) { h ^= p[i]; h *= 1099511628211ULL; }
    return h;
}

static uint8_t* read_file(const char* path, size_t* n) {
    FILE* f = fopen(path, "rb");
    if (!f) return NULL;
    fseek(f, 0, SEEK_END);
    long sz = ftell(f);
    fseek(f, 0, SEEK_SET);
    uint8_t* b = malloc(sz > 0 ? (size_t)sz : 1);
    size_t got = sz > 0 ? fread(b, 1, (size_t)sz, f) : 0;
    fclose(f);
    *n = got;
    return b;
}

static int write_file(const char* path, const uint8_t* p, size_t n) {
    int fd = open(path, O_WRONLY | O_CREAT | O_TRUNC, 0644);
    if (fd < 0) return -1;
    size_t off = 0;
    while (off < n) {
        ssize_t w = write(fd, p + off, n - off);
        if (w <= 0) { close(fd); return -1; }
        off += (size_t)w;
    }
    close(fd);
    return 0;
}

static volatile uint64_t g_touch;
static void touch(const void* p, size_t n) {
    const volatile uint8_t* b = (const volatile uint8_t*)p;
    uint64_t s = 0;
    for (size_t i = 0; i < n; i++) s += b[i];
    g_touch += s;
}

/* error struct discipline: when a call fails and an error struct was supplied, the code must be
 * non-OK and the message NUL-terminated inside its array */
static int err_ok(const carquet_error_t* e) {
    if (e->code == CARQUET_OK) return 0;
    if (!memchr(e->message, 0, sizeof(e->message))) return 0;
    return 1;
}

/* ------------------------------------------------------------------------------------------ stdio call-level injection
 * (-Wl,--wrap=fwrite,--wrap=fflush,--wrap=fclose,--wrap=ferror: every reference from the library objects and
 * from this file is redirected here; calls on stdin/stdout/stderr and calls made while injection is not
 * armed are passed through) */
extern size_t __real_fwrite(const void*, size_t, size_t, FILE*);
extern int __real_fflush(FILE*);
extern int __real_fclose(FILE*);
extern int __real_ferror(FILE*);

static struct {
    int armed;
    long count;       /* stream calls (fwrite/fflush/fclose) seen on target streams */
    long fail_at;     /* index of the call that fails (-1: none) */
    int err;          /* injected sticky error indicator */
    int failed;       /* an injected failure happened */
    char log[4096];   /* the calls seen: w<bytes> f c, '|' before every writer call */
    int logn;
} g_inj = {0, 0, -1, 0, 0, {0}, 0};

static int inj_target(FILE* f) { return g_inj.armed && f && f != stdout && f != stderr && f != stdin; }
static void inj_log(char c) { if (g_inj.logn < (int)sizeof(g_inj.log) - 1) g_inj.log[g_inj.logn++] = c; }
static void inj_logn(size_t n) {
    char t[32]; int k = snprintf(t, sizeof(t), "%zu.", n);
    for (int i = 0; i < k; i++) inj_log(t[i]);
}

size_t __wrap_fwrite(const void* p, size_t sz, size_t n, FILE* f) {
    if (!inj_target(f)) return __real_fwrite(p, sz, n, f);
    long idx = g_inj.count++;
    inj_log('w'); inj_logn(sz * n);
    if (idx == g_inj.fail_at) {
        /* a short write: half of the items go through, the rest is refused */
        size_t part = n / 2;
        if (part) __real_fwrite(p, sz, part, f);
        g_inj.err = 1; g_inj.failed = 1;
        return part;
    }
    return __real_fwrite(p, sz, n, f);
}
int __wrap_fflush(FILE* f) {
    if (!inj_target(f)) return __real_fflush(f);
    long idx = g_inj.count++;
    inj_log('f');
    int r = __real_fflush(f);
    if (idx == g_inj.fail_at) { g_inj.err = 1; g_inj.failed = 1; return EOF; }
    return r;
}
int __wrap_fclose(FILE* f) {
    if (!inj_target(f)) return __real_fclose(f);
    long idx = g_inj.count++;
    inj_log('c');
    int r = __real_fclose(f);
    if (idx == g_inj.fail_at) { g_inj.failed = 1; return EOF; }
    return r;
}
int __wrap_ferror(FILE* f) {
    if (!inj_target(f)) return __real_ferror(f);
    return g_inj.err || __real_ferror(f);
}

/* ------------------------------------------------------------------------------------------ cookie sink */

typedef struct {
    uint8_t* buf; size_t len, cap;
    long nwrites;          /* write requests seen */
    long fail_byte;        /* accept this many bytes in total, then refuse (-1: off) */
    long fail_op;          /* index of the write request that is cut short (-1: off) */
    long fail_op_accept;   /* bytes that request accepts */
    int persistent;        /* every later request is refused too */
    int close_fails;
    int failed;            /* some request was refused / cut short, or close failed */
    int tripped;
} sink_t;

static ssize_t sink_write_cb(void* c, const char* p, size_t n) {
    sink_t* s = (sink_t*)c;
    long idx = s->nwrites++;
    size_t take = n;
    if (s->tripped && s->persistent) take = 0;
    if (s->fail_op >= 0 && idx == s->fail_op) {
        take = (size_t)s->fail_op_accept < n ? (size_t)s->fail_op_accept : n;
        if (take < n) s->tripped = 1;
    }
    if (s->fail_byte >= 0 && s->len + take > (size_t)s->fail_byte) {
        take = (size_t)s->fail_byte > s->len ? (size_t)s->fail_byte - s->len : 0;
        s->tripped = 1;
    }
    if (s->len + take > s->cap) {
        s->cap = (s->len + take) * 2 + 64;
        s->buf = realloc(s->buf, s->cap);
    }
    if (take) memcpy(s->buf + s->len, p, take);
    s->len += take;
    if (take < n) { s->failed = 1; if (take == 0) { errno = ENOSPC; return 0; } }
    return (ssize_t)take;
}
static int sink_close_cb(void* c) {
    sink_t* s = (sink_t*)c;
    if (s->close_fails) { s->failed = 1; errno = EIO; return -1; }
    return 0;
}

/* ------------------------------------------------------------------------------------------ table generator */

typedef struct { char schema; int codec; int rows; int rgs; unsigned seed; } spec_t;

static int parse_spec(const char* s, spec_t* sp) {
    unsigned seed; int codec, rows, rgs; char sc;
    if (sscanf(s, "%c:%d:%d:%d:%u", &sc, &codec, &rows, &rgs, &seed) != 5) return 0;
    sp->schema = sc; sp->codec = codec; sp->rows = rows; sp->rgs = rgs; sp->seed = seed;
    return 1;
}

static unsigned rnd(unsigned* st) { *st = *st * 1103515245u + 12345u; return (*st >> 8) & 0xFFFFFF; }

typedef struct { const char* name; carquet_physical_type_t t; carquet_field_repetition_t rep; int tl; } coldef_t;
static const coldef_t SCHEMA_A[] = {{"id", CARQUET_PHYSICAL_INT32, CARQUET_REPETITION_REQUIRED, 0},
                                    {"big", CARQUET_PHYSICAL_INT64, CARQUET_REPETITION_REQUIRED, 0}};
static const coldef_t SCHEMA_B[] = {{"x", CARQUET_PHYSICAL_DOUBLE, CARQUET_REPETITION_OPTIONAL, 0},
                                    {"s", CARQUET_PHYSICAL_BYTE_ARRAY, CARQUET_REPETITION_REQUIRED, 0}};
static const coldef_t SCHEMA_C[] = {{"b", CARQUET_PHYSICAL_BOOLEAN, CARQUET_REPETITION_REQUIRED, 0},
                                    {"f", CARQUET_PHYSICAL_FLOAT, CARQUET_REPETITION_OPTIONAL, 0},
                                    {"k", CARQUET_PHYSICAL_FIXED_LEN_BYTE_ARRAY, CARQUET_REPETITION_REQUIRED, 5}};
static const coldef_t SCHEMA_D[] = {{"n", CARQUET_PHYSICAL_INT32, CARQUET_REPETITION_OPTIONAL, 0},
                                    {"t", CARQUET_PHYSICAL_BYTE_ARRAY, CARQUET_REPETITION_OPTIONAL, 0},
                                    {"v", CARQUET_PHYSICAL_INT64, CARQUET_REPETITION_REQUIRED, 0},
                                    {"w", CARQUET_PHYSICAL_DOUBLE, CARQUET_REPETITION_REQUIRED, 0}};

static const coldef_t* schema_cols(char c, int* n) {
    switch (c) {
        case 'a': *n = 2; return SCHEMA_A;
        case 'b': *n = 2; return SCHEMA_B;
        case 'c': *n = 3; return SCHEMA_C;
        default:  *n = 4; return SCHEMA_D;
    }
}

static carquet_schema_t* make_schema(const spec_t* sp) {
    carquet_error_t e = CARQUET_ERROR_INIT;
    carquet_schema_t* s = carquet_schema_create(&e);
    if (!s) return NULL;
    int n; const coldef_t* cols = schema_cols(sp->schema, &n);
    for (int i = 0; i < n; i++) {
        if (carquet_schema_add_column(s, cols[i].name, cols[i].t, NULL, cols[i].rep, cols[i].tl) != CARQUET_OK) {
            carquet_schema_free(s);
            return NULL;
        }
    }
    return s;
}

/* one write_batch call for column c of row group g: values are a deterministic function of the spec.
 * OPTIONAL columns always get definition levels, nulls are placed singly (no run of >= 8 equal levels
 * next to other levels - the known RLE defect F1 is not this check's business). */
static carquet_status_t write_column(carquet_writer_t* w, const spec_t* sp, int g, int c) {
    int n; const coldef_t* cols = schema_cols(sp->schema, &n);
    const coldef_t* cd = &cols[c];
    int rows = sp->rows;
    unsigned st = sp->seed * 7919u + (unsigned)g * 104729u + (unsigned)c * 1299709u + 17u;
    int16_t* defs = NULL;
    int present = rows;
    if (cd->rep == CARQUET_REPETITION_OPTIONAL) {
        defs = malloc(sizeof(int16_t) * (size_t)(rows ? rows : 1));
        present = 0;
        for (int i = 0; i < rows; i++) { defs[i] = (int16_t)((i % 3) != 1); present += defs[i]; }
    }
    size_t vs = 0;
    switch (cd->t) {
        case CARQUET_PHYSICAL_BOOLEAN: vs = 1; break;
        case CARQUET_PHYSICAL_INT32: case CARQUET_PHYSICAL_FLOAT: vs = 4; break;
        case CARQUET_PHYSICAL_INT64: case CARQUET_PHYSICAL_DOUBLE: vs = 8; break;
        case CARQUET_PHYSICAL_FIXED_LEN_BYTE_ARRAY: vs = (size_t)cd->tl; break;
        case CARQUET_PHYSICAL_BYTE_ARRAY: vs = sizeof(carquet_byte_array_t); break;
        default: vs = 8;
    }
    uint8_t* vals = calloc((size_t)(present ? present : 1), vs);
    uint8_t* strs = NULL;
    if (cd->t == CARQUET_PHYSICAL_BYTE_ARRAY) {
        strs = malloc((size_t)(present ? present : 1) * 12);
        carquet_byte_array_t* ba = (carquet_byte_array_t*)vals;
        for (int i = 0; i < present; i++) {
            int len = (int)(rnd(&st) % 12);
            for (int k = 0; k < len; k++) strs[i * 12 + k] = (uint8_t)('a' + rnd(&st) % 26);
            ba[i].data = strs + i * 12; ba[i].length = len;
        }
    } else if (cd->t == CARQUET_PHYSICAL_BOOLEAN) {
        for (int i = 0; i < present; i++) vals[i] = (uint8_t)(rnd(&st) & 1);
    } else if (cd->t == CARQUET_PHYSICAL_DOUBLE) {
        double* d = (double*)vals; for (int i = 0; i < present; i++) d[i] = (double)rnd(&st) / 7.0;
    } else if (cd->t == CARQUET_PHYSICAL_FLOAT) {
        float* d = (float*)vals; for (int i = 0; i < present; i++) d[i] = (float)rnd(&st) / 3.0f;
    } else {
        for (size_t i = 0; i < (size_t)present * vs; i++) vals[i] = (uint8_t)rnd(&st);
    }
    carquet_status_t r = carquet_writer_write_batch(w, c, vals, rows, defs, NULL);
    free(vals); free(strs); free(defs);
    return r;
}

#define MAX_STEPS 256
/* The write history of a spec: for each row group g: write_batch per column, then new_row_group (between
 * groups) and finally close.  Runs it on writer w; statuses[] receives the status of every call.
 * stop_at >= 0: carquet_writer_abort instead of call number stop_at (and stop).  Returns number of calls made;
 * *closed = 1 when close was called (the writer is gone either way on return). */
static int run_history(carquet_writer_t* w, const spec_t* sp, int stop_at, int stop_on_error,
                       int* statuses, int* closed) {
    int n; schema_cols(sp->schema, &n);
    int step = 0;
    *closed = 0;
    for (int g = 0; g < sp->rgs; g++) {
        for (int c = 0; c < n; c++) {
            if (step == stop_at) { carquet_writer_abort(w); return step; }
            inj_log('|');
            statuses[step] = (int)write_column(w, sp, g, c);
            if (statuses[step++] != CARQUET_OK && stop_on_error) { carquet_writer_abort(w); return step; }
        }
        if (g + 1 < sp->rgs) {
            if (step == stop_at) { carquet_writer_abort(w); return step; }
            inj_log('|');
            statuses[step] = (int)carquet_writer_new_row_group(w);
            if (statuses[step++] != CARQUET_OK && stop_on_error) { carquet_writer_abort(w); return step; }
        }
    }
    if (step == stop_at) { carquet_writer_abort(w); return step; }
    inj_log('|');
    statuses[step++] = (int)carquet_writer_close(w);
    *closed = 1;
    return step;
}

static void writer_opts(const spec_t* sp, carquet_writer_options_t* o) {
    carquet_writer_options_init(o);
    o->compression = (carquet_compression_t)sp->codec;
}

static void op_gen(const char* spec, const char* path) {
    spec_t sp;
    if (!parse_spec(spec, &sp)) { puts("ERR bad-spec"); return; }
    carquet_schema_t* s = make_schema(&sp);
    if (!s) { puts("ERR schema"); return; }
    carquet_writer_options_t o; writer_opts(&sp, &o);
    carquet_error_t e = CARQUET_ERROR_INIT;
    carquet_writer_t* w = carquet_writer_create(path, s, &o, &e);
    if (!w) { printf("ERR create %d\n", (int)e.code); carquet_schema_free(s); return; }
    int st[MAX_STEPS], closed;
    int n = run_history(w, &sp, -1, 0, st, &closed);
    carquet_schema_free(s);
    for (int i = 0; i < n; i++) if (st[i] != CARQUET_OK) { printf("ERR step %d status %d\n", i, st[i]); return; }
    size_t len; uint8_t* b = read_file(path, &len);
    printf("OK %zu %016" PRIx64 " steps=%d\n", len, fnv1a(b, len), n);
    free(b);
}

static void op_genblob(int codec, const char* path, int nvals, char** hex) {
    carquet_error_t e = CARQUET_ERROR_INIT;
    carquet_schema_t* s = carquet_schema_create(&e);
    if (!s || carquet_schema_add_column(s, "blob", CARQUET_PHYSICAL_BYTE_ARRAY, NULL, CARQUET_REPETITION_REQUIRED, 0) != CARQUET_OK) {
        puts("ERR schema"); carquet_schema_free(s); return;
    }
    carquet_writer_options_t o; carquet_writer_options_init(&o);
    o.compression = (carquet_compression_t)codec;
    carquet_writer_t* w = carquet_writer_create(path, s, &o, &e);
    if (!w) { printf("ERR create %d\n", (int)e.code); carquet_schema_free(s); return; }
    carquet_byte_array_t* ba = calloc((size_t)nvals, sizeof(*ba));
    void** bases = calloc((size_t)nvals, sizeof(void*));
    for (int i = 0; i < nvals; i++) { size_t n; ba[i].data = h_unhex(hex[i], &n, 0, &bases[i]); ba[i].length = (int32_t)n; }
    carquet_status_t st = carquet_writer_write_batch(w, 0, ba, nvals, NULL, NULL);
    carquet_status_t sc = carquet_writer_close(w);
    for (int i = 0; i < nvals; i++) free(bases[i]);
    free(ba); free(bases);
    carquet_schema_free(s);
    if (st != CARQUET_OK || sc != CARQUET_OK) { printf("ERR write %d close %d\n", (int)st, (int)sc); return; }
    size_t len; uint8_t* b = read_file(path, &len);
    printf("OK %zu %016" PRIx64 "\n", len, fnv1a(b, len));
    free(b);
}

/* ------------------------------------------------------------------------------------------ opening in three modes */

typedef struct { carquet_reader_t* r; uint8_t* buf; } handle_t;

static carquet_reader_t* open_mode(int mode, const char* path, const uint8_t* data, size_t n, uint8_t** keep,
                                   carquet_error_t* e) {
    carquet_reader_options_t o;
    carquet_reader_options_init(&o);
    *keep = NULL;
    if (mode == 0) { o.use_mmap = false; return carquet_reader_open(path, &o, e); }
    if (mode == 1) { o.use_mmap = true; return carquet_reader_open(path, &o, e); }
    uint8_t* b = malloc(n ? n : 1);       /* exact size: one byte beyond is an ASan report */
    if (n) memcpy(b, data, n);
    if (n == 0) { free(b); b = malloc(0); }
    *keep = b;
    return carquet_reader_open_buffer(b, n, &o, e);
}

/* The second calling convention the API allows: no error record (error == NULL) and, where no option is
 * needed, no options (options == NULL).  Returns 1 when the open succeeded; the reader is closed again. */
static int open_mode_noerr(int mode, const char* path, const uint8_t* data, size_t n) {
    carquet_reader_t* r;
    uint8_t* b = NULL;
    if (mode == 0) r = carquet_reader_open(path, NULL, NULL);
    else if (mode == 1) { carquet_reader_options_t o; carquet_reader_options_init(&o); o.use_mmap = true; r = carquet_reader_open(path, &o, NULL); }
    else {
        b = malloc(n ? n : 1);
        if (n) memcpy(b, data, n);
        if (n == 0) { free(b); b = malloc(0); }
        r = carquet_reader_open_buffer(b, n, NULL, NULL);
    }
    int ok = r != NULL;
    if (r) carquet_reader_close(r);
    free(b);
    return ok;
}

/* ------------------------------------------------------------------------------------------ exercising a reader
 * The caller sizes its buffers from what the library says about the column: the schema element the
 * library itself maps the column to (reader->schema->leaf_indices).  */

static long value_size_of(int type, int tl) {
    switch (type) {
        case CARQUET_PHYSICAL_BOOLEAN: return 1;
        case CARQUET_PHYSICAL_INT32: case CARQUET_PHYSICAL_FLOAT: return 4;
        case CARQUET_PHYSICAL_INT64: case CARQUET_PHYSICAL_DOUBLE: return 8;
        case CARQUET_PHYSICAL_INT96: return 12;
        case CARQUET_PHYSICAL_BYTE_ARRAY: return (long)sizeof(carquet_byte_array_t);
        case CARQUET_PHYSICAL_FIXED_LEN_BYTE_ARRAY: return (tl > 0 && tl <= (1 << 20)) ? tl : -1;
        default: return -1;
    }
}

typedef struct {
    long calls, errs, values, badcode, livelock, okcols;
    int first_err;
    int badsite;
} stats_t;

#define BAD(st, site) do { (st)->badcode++; if (!(st)->badsite) (st)->badsite = (site); } while (0)
static void note_err(stats_t* st, int code) { st->errs++; if (!st->first_err) st->first_err = code; }

static const parquet_schema_element_t* leaf_elem(carquet_reader_t* r, int col) {
    const carquet_schema_t* s = carquet_reader_schema(r);
    if (!s || col < 0 || col >= s->num_leaves) return NULL;
    int32_t idx = s->leaf_indices[col];
    if (idx < 0 || idx >= s->num_elements) return NULL;
    return &s->elements[idx];
}


/* Everything the API offers on an error record / status / enum value that came out of an untrusted file:
 * strings must be terminated, carquet_error_format must stay inside the buffer it is given. */
static int g_errfmt_bad = 0;
static void ex_error_format_one(const carquet_error_t* e, size_t sz) {
    /* exact-size heap buffer: the text must be terminated inside it and the returned length must not exceed the
     * length of the text */
    char* buf = malloc(sz);
    memset(buf, 'x', sz);
    int w = carquet_error_format(e, buf, sz);
    const char* nul = memchr(buf, 0, sz);
    if (w < 0 || (size_t)w >= sz || !nul || (size_t)w > (size_t)(nul - buf)) g_errfmt_bad++;
    free(buf);
}
static void ex_error_format_sizes(const carquet_error_t* e, size_t back) {
    /* the optional pieces (location, hint) are appended at the end, each only if it fits: every buffer size from
     * `back` below the full length to two above it meets each boundary "the next piece just fits / just does
     * not"; plus the very small sizes and a large one */
    char big[4096];
    (void)carquet_error_format(e, big, sizeof(big));
    size_t L = strlen(big);
    touch(big, L);
    for (size_t sz = 1; sz <= 9; sz++) ex_error_format_one(e, sz);
    for (size_t sz = L > back ? L - back : 10; sz <= L + 2; sz++) ex_error_format_one(e, sz);
    ex_error_format_one(e, 1200);
}
static int g_errfmt_full = 0;
static void ex_error_record(const carquet_error_t* e) {
    ex_error_format_sizes(e, g_errfmt_full ? 600 : 130);
    /* the same with the location pieces present (the library itself never sets them; a caller can) */
    static const struct { int64_t off; int32_t rg, col; } ctx[] = {
        {INT64_MAX, INT32_MAX, INT32_MAX}, {0, 0, 0}, {12345, -1, -1}, {-1, 1, -1}, {-1, -1, 2}};
    for (size_t i = 0; i < (g_errfmt_full ? sizeof(ctx) / sizeof(ctx[0]) : 1); i++) {
        carquet_error_t c2; carquet_error_init(&c2);
        carquet_error_copy(&c2, e);
        carquet_error_set_context(&c2, ctx[i].off, ctx[i].rg, ctx[i].col);
        ex_error_format_sizes(&c2, g_errfmt_full ? 600 : 190);
        carquet_error_clear(&c2);
    }
    const char* h = carquet_error_recovery_hint(e->code);
    if (h) touch(h, strlen(h));
    (void)carquet_error_is_recoverable(e->code);
    const char* ss = carquet_status_string(e->code);
    touch(ss, strlen(ss));
}
static void ex_enum_names(int v) {
    const char* a = carquet_physical_type_name((carquet_physical_type_t)v); touch(a, strlen(a));
    const char* b = carquet_compression_name((carquet_compression_t)v); touch(b, strlen(b));
    const char* c = carquet_encoding_name((carquet_encoding_t)v); touch(c, strlen(c));
    const char* d = carquet_status_string((carquet_status_t)v); touch(d, strlen(d));
    const char* h = carquet_error_recovery_hint((carquet_status_t)v); if (h) touch(h, strlen(h));
    (void)carquet_error_is_recoverable((carquet_status_t)v);
}

static void ex_metadata(carquet_reader_t* r, stats_t* st) {
    int64_t nr = carquet_reader_num_rows(r);
    int32_t nrg = carquet_reader_num_row_groups(r);
    int32_t nc = carquet_reader_num_columns(r);
    g_touch += (uint64_t)nr;
    st->calls += 3;
    g_touch += (uint64_t)carquet_reader_is_mmap(r);
    { int ma, mi, pa; carquet_version_components(&ma, &mi, &pa); const char* v = carquet_version(); touch(v, strlen(v)); }
    for (int v = -3; v <= 20; v++) ex_enum_names(v);
    for (int v = 21; v <= 90; v++) { const char* d = carquet_status_string((carquet_status_t)v); touch(d, strlen(d));
                                     const char* h = carquet_error_recovery_hint((carquet_status_t)v); if (h) touch(h, strlen(h));
                                     (void)carquet_error_is_recoverable((carquet_status_t)v); }
    ex_enum_names(INT32_MAX); ex_enum_names(INT32_MIN);
    /* names of the enum values the file itself carries (untrusted ints) */
    for (int32_t g = 0; g < r->metadata.num_row_groups && g < 8; g++) {
        const parquet_row_group_t* rg = &r->metadata.row_groups[g];
        for (int32_t c = 0; c < rg->num_columns && c < 32; c++) {
            const parquet_column_metadata_t* cm = &rg->columns[c].metadata;
            ex_enum_names((int)cm->type); ex_enum_names((int)cm->codec);
            for (int32_t k = 0; k < cm->num_encodings && k < 8; k++) ex_enum_names((int)cm->encodings[k]);
        }
    }
    const carquet_schema_t* s = carquet_reader_schema(r);
    if (s) {
        int32_t ne = carquet_schema_num_elements(s);
        for (int32_t i = -1; i <= ne; i++) {
            const carquet_schema_node_t* nd = carquet_schema_get_element(s, i);
            st->calls++;
            if ((i < 0 || i >= ne) && nd) BAD(st, 1);       /* out of range must be NULL */
            if (!nd) continue;
            const char* nm = carquet_schema_node_name(nd);
            if (nm) touch(nm, strlen(nm));
            ex_enum_names((int)carquet_schema_node_physical_type(nd));
            g_touch += (uint64_t)carquet_schema_node_type_length(nd) + (uint64_t)carquet_schema_node_repetition(nd)
                     + (uint64_t)carquet_schema_node_is_leaf(nd) + (uint64_t)carquet_schema_node_max_def_level(nd)
                     + (uint64_t)carquet_schema_node_max_rep_level(nd);
            (void)carquet_schema_node_logical_type(nd);
        }
    }
    int32_t probes[] = {-1, 0, nrg - 1, nrg, nrg + 1, INT32_MAX, INT32_MIN};
    for (size_t k = 0; k < sizeof(probes) / sizeof(probes[0]); k++) {
        carquet_row_group_metadata_t m;
        carquet_status_t c = carquet_reader_row_group_metadata(r, probes[k], &m);
        st->calls++;
        int inrange = probes[k] >= 0 && probes[k] < nrg;
        if (!inrange && c == CARQUET_OK) BAD(st, 2);
        if (c != CARQUET_OK) note_err(st, (int)c);
    }
    /* a row group that has fewer chunks than the schema has leaves: the indices in between are not in it */
    for (int32_t g = 0; g < nrg && g < 4; g++) {
        int32_t rc = r->metadata.row_groups[g].num_columns;
        for (int32_t c = rc; c >= 0 && c < nc && c < rc + 3; c++) {
            carquet_error_t e = CARQUET_ERROR_INIT;
            carquet_column_reader_t* col = carquet_reader_get_column(r, g, c, &e);
            st->calls++;
            if (col) { BAD(st, 18); carquet_column_reader_free(col); } else if (!err_ok(&e)) BAD(st, 19);
            if (carquet_reader_can_zero_copy(r, g, c)) BAD(st, 20);
        }
    }
    /* out-of-range get_column indices must be reported as errors, with a code and a terminated message */
    int32_t cprobes[] = {-1, nc, nc + 1, INT32_MAX, INT32_MIN};
    for (size_t k = 0; k < sizeof(probes) / sizeof(probes[0]); k++) {
        for (size_t j = 0; j < sizeof(cprobes) / sizeof(cprobes[0]); j++) {
            int rg_in = probes[k] >= 0 && probes[k] < nrg;
            carquet_error_t e = CARQUET_ERROR_INIT;
            carquet_column_reader_t* c = carquet_reader_get_column(r, probes[k], cprobes[j], &e);
            st->calls++;
            if (c) { BAD(st, 3); carquet_column_reader_free(c); }
            else { if (!err_ok(&e)) BAD(st, 4); note_err(st, (int)e.code); if (k == 0 && j == 0) ex_error_record(&e); }
            if (carquet_reader_can_zero_copy(r, probes[k], cprobes[j])) BAD(st, 16);     /* out of range: never */
            g_touch += (uint64_t)carquet_reader_can_zero_copy(r, 0, (int32_t)j);
            (void)rg_in;
        }
        {   /* no error record: must still be NULL for an out-of-range index, without a crash */
            carquet_column_reader_t* c0 = carquet_reader_get_column(r, probes[k], nc, NULL);
            st->calls++;
            if (c0) { BAD(st, 15); carquet_column_reader_free(c0); }
        }
        if (!(probes[k] >= 0 && probes[k] < nrg)) {
            carquet_error_t e = CARQUET_ERROR_INIT;
            carquet_column_reader_t* c = carquet_reader_get_column(r, probes[k], 0, &e);
            st->calls++;
            if (c) { BAD(st, 5); carquet_column_reader_free(c); }
            else { if (!err_ok(&e)) BAD(st, 6); note_err(st, (int)e.code); }
        }
    }
}

/* low-level column API: read every column chunk with read_batch(batch), optionally skipping first */
static void ex_columns(carquet_reader_t* r, long batch, long skip, stats_t* st) {
    int32_t nrg = carquet_reader_num_row_groups(r);
    int32_t nc = carquet_reader_num_columns(r);
    if (nrg > 64) nrg = 64;       /* a linear cap on what this caller is willing to walk */
    if (nc > 256) nc = 256;
    for (int32_t g = 0; g < nrg; g++) {
        for (int32_t c = 0; c < nc; c++) {
            carquet_error_t e = CARQUET_ERROR_INIT;
            carquet_column_reader_t* col = carquet_reader_get_column(r, g, c, &e);
            st->calls++;
            if (!col) { if (!err_ok(&e)) BAD(st, 7); note_err(st, (int)e.code); continue; }
            const parquet_schema_element_t* el = leaf_elem(r, c);
            long vs = el ? value_size_of(el->has_type ? (int)el->type : -1, el->type_length) : -1;
            if (vs <= 0) { carquet_column_reader_free(col); continue; }    /* a caller cannot size a buffer */
            int is_ba = el->type == CARQUET_PHYSICAL_BYTE_ARRAY;
            uint8_t* vals = malloc((size_t)(batch * vs));
            int16_t* defs = malloc(sizeof(int16_t) * (size_t)batch);
            int16_t* reps = malloc(sizeof(int16_t) * (size_t)batch);
            if (skip > 0) { (void)carquet_column_skip(col, skip); st->calls++; }
            long iters = 0;
            while (carquet_column_has_next(col)) {
                ++iters;       /* every iteration delivers at least one value or ends the loop; a real hang is the CPU limit's business */
                memset(vals, 0, (size_t)(batch * vs));
                int64_t n = carquet_column_read_batch(col, vals, batch, defs, reps);
                st->calls++;
                if (n < 0) { note_err(st, -1); break; }
                if (n == 0) break;
                if (n > batch) { BAD(st, 8); break; }
                st->values += n;
                touch(defs, sizeof(int16_t) * (size_t)n);
                touch(reps, sizeof(int16_t) * (size_t)n);
                if (is_ba) {
                    /* dense convention: only the entries of the non-null rows are values.  With nulls, the
                     * position of the dense values after a partial read is wrong in the pinned tree (F5, a
                     * C02 matter): the pointers are followed only for the first call on such a column. */
                    carquet_byte_array_t* ba = (carquet_byte_array_t*)vals;
                    int64_t present = n;
                    if (col->max_def_level > 0) { present = 0; for (int64_t i = 0; i < n; i++) present += defs[i] == col->max_def_level; }
                    if (col->max_def_level == 0 || iters == 1) {
                        for (int64_t i = 0; i < present; i++) {
                            if (ba[i].length < 0) BAD(st, 9);
                            else if (ba[i].data && ba[i].length > 0) touch(ba[i].data, (size_t)ba[i].length);
                        }
                    }
                } else {
                    touch(vals, (size_t)(n * vs));
                }
            }
            if (!carquet_column_has_next(col)) st->okcols++;
            free(vals); free(defs); free(reps);
            carquet_column_reader_free(col);
        }
    }
}

/* batch reader with a projection: proj 0 = all columns, 1 = first column by index, 2 = last two by index,
 * 3 = first column by name, 4 = an out-of-range index (must be an error, not a crash) */
static void ex_batch(carquet_reader_t* r, long batch_size, int proj, stats_t* st) {
    carquet_batch_reader_config_t cfg;
    carquet_batch_reader_config_init(&cfg);
    cfg.batch_size = batch_size;
    cfg.num_threads = 1;
    int32_t nc = carquet_reader_num_columns(r);
    int32_t idx[2]; const char* names[1];
    int nproj = nc;
    int32_t pmap[256];
    for (int i = 0; i < 256; i++) pmap[i] = i;
    if (proj == 1 && nc >= 1) { idx[0] = 0; cfg.column_indices = idx; cfg.num_columns = 1; nproj = 1; pmap[0] = 0; }
    else if (proj == 2 && nc >= 2) { idx[0] = nc - 2; idx[1] = nc - 1; cfg.column_indices = idx; cfg.num_columns = 2; nproj = 2; pmap[0] = nc - 2; pmap[1] = nc - 1; }
    else if (proj == 3 && nc >= 1) {
        const parquet_schema_element_t* el = leaf_elem(r, 0);
        if (el && el->name) { names[0] = el->name; cfg.column_names = names; cfg.num_column_names = 1; nproj = 1; pmap[0] = 0; }
    } else if (proj == 4) { idx[0] = nc + 3; cfg.column_indices = idx; cfg.num_columns = 1; nproj = 1; pmap[0] = -1; }
    if (nc > 256) return;
    carquet_error_t e = CARQUET_ERROR_INIT;
    if (proj == 5) batch_size = 65536;          /* the default configuration (config == NULL): 64K rows, all threads */
    carquet_batch_reader_t* br = carquet_batch_reader_create(r, proj == 5 ? NULL : &cfg, &e);
    st->calls++;
    if (!br) { if (!err_ok(&e)) BAD(st, 10); note_err(st, (int)e.code); return; }
    long iters = 0, idle = 0;
    for (;;) {
        ++iters;
        if (idle > 2000) { st->livelock++; break; }     /* 2000 consecutive batches without a row: no progress */
        carquet_row_batch_t* b = NULL;
        carquet_status_t c = carquet_batch_reader_next(br, &b);
        st->calls++;
        if (c != CARQUET_OK) { if (c != CARQUET_ERROR_END_OF_DATA) note_err(st, (int)c); if (b) BAD(st, 11); break; }
        if (!b) { BAD(st, 12); break; }
        int32_t bc = carquet_row_batch_num_columns(b);
        int64_t rows = carquet_row_batch_num_rows(b);
        idle = rows > 0 ? 0 : idle + 1;
        for (int32_t i = -1; i <= bc; i++) {
            const void* data; const uint8_t* bm; int64_t nv;
            carquet_status_t cc = carquet_row_batch_column(b, i, &data, &bm, &nv);
            st->calls++;
            if (i < 0 || i >= bc) { if (cc == CARQUET_OK) BAD(st, 13); continue; }
            if (cc != CARQUET_OK) { note_err(st, (int)cc); continue; }
            if (i >= nproj || pmap[i] < 0) continue;
            const parquet_schema_element_t* el = leaf_elem(r, pmap[i]);
            long vs = el ? value_size_of(el->has_type ? (int)el->type : CARQUET_PHYSICAL_BYTE_ARRAY, el->type_length) : -1;
            if (nv < 0 || nv > batch_size) { BAD(st, 14); continue; }
            st->values += nv;
            if (bm && nv > 0) touch(bm, (size_t)((nv + 7) / 8));
            if (data && vs > 0 && nv > 0) {
                if (el->has_type && el->type == CARQUET_PHYSICAL_BYTE_ARRAY) {
                    /* dense values; the number of present entries is nv minus the nulls of the bitmap */
                    const carquet_byte_array_t* ba = (const carquet_byte_array_t*)data;
                    int64_t present = nv;
                    int nullable = 0;
                    if (bm) { present = 0; for (int64_t k = 0; k < nv; k++) if (!(bm[k / 8] & (1 << (k % 8)))) present++; nullable = present != nv; }
                    touch(ba, (size_t)nv * sizeof(*ba));
                    if (!nullable || iters == 1)       /* see ex_columns: F5 */
                        for (int64_t k = 0; k < present; k++)
                            if (ba[k].data && ba[k].length > 0) touch(ba[k].data, (size_t)ba[k].length);
                } else {
                    touch(data, (size_t)(nv * vs));
                }
            }
        }
        carquet_row_batch_free(b);
    }
    carquet_batch_reader_free(br);
}

/* script: letters  M (metadata + out-of-range probes)  R<batch> (all columns)  S<skip>,<batch>
 *                  B<batch>,<proj> (batch reader)      separated by '/' */
static void exercise(carquet_reader_t* r, const char* script, stats_t* st) {
    char tmp[256];
    strncpy(tmp, script, sizeof(tmp) - 1); tmp[sizeof(tmp) - 1] = 0;
    for (char* tok = strtok(tmp, "/"); tok; tok = strtok(NULL, "/")) {
        if (tok[0] == 'M') ex_metadata(r, st);
        else if (tok[0] == 'R') ex_columns(r, atol(tok + 1) > 0 ? atol(tok + 1) : 1, 0, st);
        else if (tok[0] == 'S') { long a = 0, b = 1; sscanf(tok + 1, "%ld,%ld", &a, &b); ex_columns(r, b > 0 ? b : 1, a, st); }
        else if (tok[0] == 'B') { long a = 1; int p = 0; sscanf(tok + 1, "%ld,%d", &a, &p); ex_batch(r, a > 0 ? a : 1, p, st); }
    }
}

/* ------------------------------------------------------------------------------------------ forked execution */

typedef struct { volatile long a, b, c; } progress_t;
static progress_t* g_prog;

typedef void (*case_fn)(void* ctx, FILE* out);

/* Runs fn in a child.  The child's stdout text goes to a pipe (returned in res), its stderr to a temp
 * file that is scanned for a sanitizer report.  cpu_limit_s: CPU seconds; wall_limit_s: wall clock. */
static void run_forked(case_fn fn, void* ctx, int cpu_limit_s, int wall_limit_s, char* res, size_t rescap) {
    int pfd[2];
    if (pipe(pfd) != 0) { snprintf(res, rescap, "FAULT harness pipe"); return; }
    FILE* errf = tmpfile();
    fflush(stdout);
    if (g_prog) { g_prog->a = g_prog->b = g_prog->c = -1; }
    struct timespec t0; clock_gettime(CLOCK_MONOTONIC, &t0);
    pid_t pid = fork();
    if (pid == 0) {
        close(pfd[0]);
        dup2(fileno(errf), 2);
        struct rlimit rl = {(rlim_t)cpu_limit_s, (rlim_t)cpu_limit_s + 1};
        setrlimit(RLIMIT_CPU, &rl);
        struct rlimit core = {0, 0};
        setrlimit(RLIMIT_CORE, &core);
        /* a small stack: unbounded recursion on nested input overflows it quickly (the limit applies to the
         * growth of this process's stack from now on) */
        struct rlimit stk = {(rlim_t)1 << 20, (rlim_t)1 << 20};
        setrlimit(RLIMIT_STACK, &stk);
        FILE* out = fdopen(pfd[1], "w");
        fn(ctx, out);
        int leak = __lsan_do_recoverable_leak_check();
        fprintf(out, " leak=%d", leak ? 1 : 0);
        fflush(out);
#ifdef VERIF_COV
        { extern void __gcov_dump(void); __gcov_dump(); }      /* coverage audit: the worker leaves through _exit */
#endif
        _exit(leak ? 23 : 0);
    }
    close(pfd[1]);
    /* read the child's output while waiting (bounded) */
    size_t got = 0;
    int status = 0, done = 0, killed = 0;
    struct rusage ru; memset(&ru, 0, sizeof(ru));
    fcntl(pfd[0], F_SETFL, O_NONBLOCK);
    for (;;) {
        char buf[4096];
        ssize_t k = read(pfd[0], buf, sizeof(buf));
        if (k > 0) { size_t c = (size_t)k < rescap - 1 - got ? (size_t)k : rescap - 1 - got; memcpy(res + got, buf, c); got += c; }
        pid_t w = wait4(pid, &status, WNOHANG, &ru);
        if (w == pid) { done = 1; }
        if (done) {
            while ((k = read(pfd[0], buf, sizeof(buf))) > 0) { size_t c = (size_t)k < rescap - 1 - got ? (size_t)k : rescap - 1 - got; memcpy(res + got, buf, c); got += c; }
            break;
        }
        struct timespec t1; clock_gettime(CLOCK_MONOTONIC, &t1);
        if (!killed && (t1.tv_sec - t0.tv_sec) >= wall_limit_s) { kill(pid, SIGKILL); killed = 1; }
        struct timespec ts = {0, 2000000}; nanosleep(&ts, NULL);
    }
    close(pfd[0]);
    res[got] = 0;
    struct timespec t1; clock_gettime(CLOCK_MONOTONIC, &t1);
    long ms = (t1.tv_sec - t0.tv_sec) * 1000 + (t1.tv_nsec - t0.tv_nsec) / 1000000;
    long cpu_ms = ru.ru_utime.tv_sec * 1000 + ru.ru_utime.tv_usec / 1000 + ru.ru_stime.tv_sec * 1000 + ru.ru_stime.tv_usec / 1000;
    long rss_mb = ru.ru_maxrss / 1024;
    /* classify */
    char kind[64] = "", where[160] = "";
    int fault = 0;
    if (killed) { fault = 1; strcpy(kind, "hang-wall"); }
    else if (WIFSIGNALED(status)) {
        fault = 1;
        int sg = WTERMSIG(status);
        if (sg == SIGXCPU || sg == SIGKILL) strcpy(kind, "hang-cpu"); else snprintf(kind, sizeof(kind), "signal-%d", sg);
    } else if (WIFEXITED(status) && WEXITSTATUS(status) != 0) {
        fault = 1;
        int ec = WEXITSTATUS(status);
        if (ec == 23) strcpy(kind, "leak"); else if (ec == 98) strcpy(kind, "ubsan-mem"); else snprintf(kind, sizeof(kind), "exit-%d", ec);
    }
    if (fault) {
        /* scan the child's stderr for the sanitizer's headline and the first frame inside carquet */
        fflush(errf); rewind(errf);
        char line[1024]; int have_kind = 0, have_where = 0;
        while (fgets(line, sizeof(line), errf)) {
            char* p;
            if (!have_kind && (p = strstr(line, "ERROR: AddressSanitizer: "))) {
                p += strlen("ERROR: AddressSanitizer: ");
                size_t n = strcspn(p, " \n"); if (n > 40) n = 40;
                snprintf(kind, sizeof(kind), "asan-%.*s", (int)n, p); have_kind = 1;
                if (strstr(line, "requested allocation size") || !strncmp(p, "allocation-size-too-big", 23)) { /* keep */ }
            } else if (!have_kind && (p = strstr(line, "runtime error: "))) {
                /* arithmetic UB (shift exponent, signed overflow, float cast) is not a bounds violation
                 * and is tracked separately; everything else (null / misaligned / out-of-bounds access,
                 * invalid bool or enum load, pointer overflow, nonnull argument) counts as a fault */
                if (strstr(p, "shift exponent") || strstr(p, "signed integer overflow") || strstr(p, "left shift of") ||
                    strstr(p, "outside the range of representable values") || strstr(p, "negation of"))
                    strcpy(kind, "ubsan-arith");
                else
                    strcpy(kind, "ubsan-mem");
                have_kind = 1;
                char* q = strstr(line, "src/");
                if (q && !have_where) { size_t n = strcspn(q, ": \n"); snprintf(where, sizeof(where), "%.*s", (int)n, q); have_where = 1; }
            } else if (!have_kind && strstr(line, "ERROR: LeakSanitizer")) {
                strcpy(kind, "leak"); have_kind = 1;
            }
            if (!have_where && (p = strstr(line, " in ")) && strstr(line, "/src/") && !strstr(line, "libsanitizer") && !strstr(line, "/harness/") && line[0] == ' ' && strstr(line, "#")) {
                /* "    #1 0x... in func /path/src/reader/x.c:123" */
                p += 4;
                size_t n = strcspn(p, " \n"); if (n > 80) n = 80;
                snprintf(where, sizeof(where), "%.*s", (int)n, p); have_where = 1;
            }
        }
        if (getenv("H_ROBUST_DEBUG")) { rewind(errf); while (fgets(line, sizeof(line), errf)) fputs(line, stderr); }
        if (!where[0]) strcpy(where, "?");
        char partial[256];
        snprintf(partial, sizeof(partial), "%.200s", res);
        for (char* q = partial; *q; q++) if (*q == '\n') *q = ' ';
        snprintf(res, rescap, "FAULT %s %s prog=%ld,%ld,%ld ms=%ld cpu=%ld rss=%ld partial=[%s]", kind, where,
                 g_prog ? g_prog->a : -1, g_prog ? g_prog->b : -1, g_prog ? g_prog->c : -1, ms, cpu_ms, rss_mb, partial);
    } else {
        size_t l = strlen(res);
        snprintf(res + l, rescap - l, " ms=%ld cpu=%ld rss=%ld", ms, cpu_ms, rss_mb);
    }
    fclose(errf);
}

/* ------------------------------------------------------------------------------------------ C18: cuts */

typedef struct { const char* path; const char* tmp; long from, to; } cuts_ctx;

static void cuts_child(void* vctx, FILE* out) {
    cuts_ctx* cx = (cuts_ctx*)vctx;
    size_t n; uint8_t* full = read_file(cx->path, &n);
    if (!full) { fprintf(out, "ERR cannot-read"); return; }
    if (write_file(cx->tmp, full, n) != 0) { fprintf(out, "ERR cannot-write-tmp"); free(full); return; }
    fprintf(out, "OK len=%zu", n);
    long to = cx->to < (long)n + 1 ? cx->to : (long)n + 1;
    /* descending, so that the temp file only ever shrinks */
    for (long cut = to - 1; cut >= cx->from; cut--) {
        if (truncate(cx->tmp, (off_t)cut) != 0) { fprintf(out, " ERR-truncate"); break; }
        int codes[3];
        for (int mode = 0; mode < 3; mode++) {
            if (g_prog) { g_prog->a = cut; g_prog->b = mode; }
            carquet_error_t e = CARQUET_ERROR_INIT;
            uint8_t* keep;
            carquet_reader_t* r = open_mode(mode, cx->tmp, full, (size_t)cut, &keep, &e);
            if (r) {
                /* accepted: it must at least be usable without a crash */
                stats_t st; memset(&st, 0, sizeof(st));
                exercise(r, "M/R64", &st);
                carquet_reader_close(r);
                codes[mode] = 0;
            } else {
                codes[mode] = err_ok(&e) ? (int)e.code : -1;     /* -1: failure without a proper error */
            }
            free(keep);
            /* the same open without an error record (and without options): same verdict, no crash */
            if (g_prog) g_prog->c = 1;
            int ok2 = open_mode_noerr(mode, cx->tmp, full, (size_t)cut);
            if (g_prog) g_prog->c = -1;
            if (ok2 != (codes[mode] == 0)) codes[mode] = -2;     /* -2: the two calling conventions disagree */
        }
        fprintf(out, " %ld:%d,%d,%d", cut, codes[0], codes[1], codes[2]);
    }
    unlink(cx->tmp);
    free(full);
}

static void op_parse(const char* hex) {
    size_t n; void* base;
    uint8_t* p = h_unhex(hex, &n, 0, &base);
    carquet_arena_t arena;
    if (carquet_arena_init(&arena) != CARQUET_OK) { puts("ERR arena"); free(base); return; }
    parquet_file_metadata_t md; memset(&md, 0, sizeof(md));
    carquet_error_t e = CARQUET_ERROR_INIT;
    carquet_status_t s = parquet_parse_file_metadata(p, n, &arena, &md, &e);
    int code = (int)s;
    if (s == CARQUET_OK) {
        carquet_schema_t* sc = build_schema(&arena, &md, &e);
        if (!sc) code = e.code != CARQUET_OK ? (int)e.code : (int)CARQUET_ERROR_INVALID_SCHEMA;   /* what open reports in its error struct */
    }
    printf("OK %d\n", code);
    carquet_arena_destroy(&arena);
    free(base);
}

/* ------------------------------------------------------------------------------------------ C18: failing sinks */

typedef struct { const char* spec; int owns; const char* buf; const char* plan; const char* tmp; int stop_on_error; } sink_ctx;

static void sink_child(void* vctx, FILE* out) {
    sink_ctx* cx = (sink_ctx*)vctx;
    spec_t sp;
    if (!parse_spec(cx->spec, &sp)) { fprintf(out, "ERR bad-spec"); return; }
    carquet_schema_t* s = make_schema(&sp);
    carquet_writer_options_t o; writer_opts(&sp, &o);
    sink_t sk; memset(&sk, 0, sizeof(sk));
    sk.fail_byte = -1; sk.fail_op = -1;
    long fsize = -1;
    g_inj.armed = 0; g_inj.count = 0; g_inj.fail_at = -1; g_inj.err = 0; g_inj.failed = 0; g_inj.logn = 0;
    if (!strncmp(cx->plan, "byte:", 5)) { if (cx->owns) fsize = atol(cx->plan + 5); else { sk.fail_byte = atol(cx->plan + 5); sk.persistent = 1; } }
    else if (!strncmp(cx->plan, "op:", 3)) {
        long k = 0, a = 0; char pc = 0;
        sscanf(cx->plan + 3, "%ld:%ld:%c", &k, &a, &pc);
        sk.fail_op = k; sk.fail_op_accept = a; sk.persistent = (pc == 'p');
    } else if (!strcmp(cx->plan, "closefail")) sk.close_fails = 1;
    else if (!strncmp(cx->plan, "call:", 5)) g_inj.fail_at = atol(cx->plan + 5);

    carquet_error_t e = CARQUET_ERROR_INIT;
    carquet_writer_t* w = NULL;
    FILE* f = NULL;
    char* vbuf = NULL;
    struct rlimit old;
    if (cx->owns) {
        unlink(cx->tmp);
        if (fsize >= 0) {
            signal(SIGXFSZ, SIG_IGN);
            getrlimit(RLIMIT_FSIZE, &old);
            struct rlimit rl = {(rlim_t)fsize, old.rlim_max};
            setrlimit(RLIMIT_FSIZE, &rl);
        }
        g_inj.armed = 1;
        w = carquet_writer_create(cx->tmp, s, &o, &e);
    } else {
        cookie_io_functions_t io = {NULL, sink_write_cb, NULL, sink_close_cb};
        f = fopencookie(&sk, "wb", io);
        if (!strcmp(cx->buf, "n")) setvbuf(f, NULL, _IONBF, 0);
        else if (cx->buf[0] == 'f') { size_t bs = (size_t)atol(cx->buf + 1); vbuf = malloc(bs ? bs : 1); setvbuf(f, vbuf, _IOFBF, bs); }
        g_inj.armed = 1;
        w = carquet_writer_create_file(f, s, &o, &e);
    }
    if (!w) { g_inj.armed = 0; fprintf(out, "ERR create %d", (int)e.code); carquet_schema_free(s); if (f) __real_fclose(f); free(vbuf); return; }
    int st[MAX_STEPS], closed;
    int n = run_history(w, &sp, -1, cx->stop_on_error, st, &closed);
    g_inj.armed = 0;
    carquet_schema_free(s);
    int user_close = 0;
    if (!cx->owns) {
        /* the caller owns the stream: it closes it and sees that result itself */
        user_close = __real_fclose(f);
        free(vbuf);
    } else if (fsize >= 0) {
        setrlimit(RLIMIT_FSIZE, &old);
    }
    fprintf(out, "OK st=");
    for (int i = 0; i < n; i++) fprintf(out, "%s%d", i ? "," : "", st[i]);
    size_t len = 0; uint8_t* got = NULL; int exists = 0;
    int sinkfail;
    if (cx->owns) {
        got = read_file(cx->tmp, &len);
        exists = got != NULL;
        sinkfail = g_inj.failed;      /* byte-level (RLIMIT_FSIZE) failures are judged by the file content */
        unlink(cx->tmp);
    } else {
        got = sk.buf; len = sk.len; sk.buf = NULL;
        sinkfail = sk.failed || g_inj.failed;
    }
    fprintf(out, " closed=%d sinkfail=%d n=%zu fnv=%016" PRIx64 " calls=%ld log=%.*s wops=%ld userclose=%d exists=%d",
            closed, sinkfail, len, got ? fnv1a(got, len) : 0, g_inj.count, g_inj.logn, g_inj.log, sk.nwrites, user_close, exists);
    free(got);
}

typedef struct { const char* spec; int owns; int step; const char* tmp; } abort_ctx;

static void abort_child(void* vctx, FILE* out) {
    abort_ctx* cx = (abort_ctx*)vctx;
    spec_t sp;
    if (!parse_spec(cx->spec, &sp)) { fprintf(out, "ERR bad-spec"); return; }
    carquet_schema_t* s = make_schema(&sp);
    carquet_writer_options_t o; writer_opts(&sp, &o);
    carquet_error_t e = CARQUET_ERROR_INIT;
    carquet_writer_t* w;
    FILE* f = NULL;
    sink_t sk; memset(&sk, 0, sizeof(sk)); sk.fail_byte = -1; sk.fail_op = -1;
    if (cx->owns) { unlink(cx->tmp); w = carquet_writer_create(cx->tmp, s, &o, &e); }
    else {
        cookie_io_functions_t io = {NULL, sink_write_cb, NULL, sink_close_cb};
        f = fopencookie(&sk, "wb", io);
        w = carquet_writer_create_file(f, s, &o, &e);
    }
    if (!w) { fprintf(out, "ERR create %d", (int)e.code); carquet_schema_free(s); if (f) fclose(f); return; }
    int st[MAX_STEPS], closed;
    int n = run_history(w, &sp, cx->step, 0, st, &closed);
    carquet_schema_free(s);
    if (f) fclose(f);
    free(sk.buf);
    struct stat sb;
    int exists = cx->owns && stat(cx->tmp, &sb) == 0;
    if (exists && closed) unlink(cx->tmp);
    fprintf(out, "OK steps=%d closed=%d exists=%d", n, closed, exists && !closed);
    if (exists && !closed) unlink(cx->tmp);
}

/* ------------------------------------------------------------------------------------------ C18: writer entry states */

typedef struct { const char* tmp; } wmisc_ctx;

static void wmisc_child(void* vctx, FILE* out) {
    wmisc_ctx* cx = (wmisc_ctx*)vctx;
    int bad = 0;
    spec_t sp = {'a', 0, 5, 1, 7};
    carquet_schema_t* s = make_schema(&sp);
    {   /* a path that cannot be opened */
        carquet_error_t e = CARQUET_ERROR_INIT;
        carquet_writer_t* w = carquet_writer_create("/nonexis/dir/x.parquet", s, NULL, &e);
        if (w) { bad |= 1; carquet_writer_abort(w); } else if (!err_ok(&e)) bad |= 2;
        w = carquet_writer_create("/nonexis/dir/x.parquet", s, NULL, NULL);          /* no error record */
        if (w) { bad |= 1; carquet_writer_abort(w); }
    }
    for (int owns = 0; owns < 2; owns++) {   /* options == NULL; an out-of-range column index in between */
        carquet_error_t e = CARQUET_ERROR_INIT;
        carquet_writer_t* w; FILE* f = NULL;
        unlink(cx->tmp);
        if (owns) w = carquet_writer_create(cx->tmp, s, NULL, &e);
        else { f = fopen(cx->tmp, "wb"); w = carquet_writer_create_file(f, s, NULL, &e); }
        if (!w) { bad |= 4; if (f) fclose(f); continue; }
        int32_t v[1] = {1};
        if (carquet_writer_write_batch(w, -1, v, 1, NULL, NULL) == CARQUET_OK) bad |= 8;
        if (carquet_writer_write_batch(w, 2, v, 1, NULL, NULL) == CARQUET_OK) bad |= 8;
        if (carquet_writer_write_batch(w, INT32_MAX, v, 1, NULL, NULL) == CARQUET_OK) bad |= 8;
        int st[MAX_STEPS], closed;
        int n = run_history(w, &sp, -1, 0, st, &closed);
        for (int i = 0; i < n; i++) if (st[i] != CARQUET_OK) bad |= 16;
        if (f) fclose(f);
        carquet_error_t oe = CARQUET_ERROR_INIT;
        carquet_reader_t* r = carquet_reader_open(cx->tmp, NULL, &oe);
        if (!r) bad |= 32; else { if (carquet_reader_num_rows(r) != 5) bad |= 64; carquet_reader_close(r); }
        unlink(cx->tmp);
    }
    carquet_schema_free(s);
    fprintf(out, "%s bad=%d", bad ? "BADERR" : "OK", bad);
}

/* ------------------------------------------------------------------------------------------ C04: read */

typedef struct { int mode; const char* script; const char* path; } read_ctx;

static void read_child(void* vctx, FILE* out) {
    read_ctx* cx = (read_ctx*)vctx;
    size_t n = 0; uint8_t* data = NULL;
    if (cx->mode == 2) { data = read_file(cx->path, &n); if (!data) { fprintf(out, "ERR cannot-read"); return; } }
    carquet_error_t e = CARQUET_ERROR_INIT;
    uint8_t* keep;
    if (g_prog) g_prog->a = 0;
    int ok_noerr;
    {   /* calling convention without an error record / options */
        size_t n2 = n; uint8_t* d2 = data;
        if (cx->mode != 2) { d2 = NULL; n2 = 0; }
        ok_noerr = open_mode_noerr(cx->mode, cx->path, d2, n2);
    }
    if (g_prog) g_prog->a = 1;
    carquet_reader_t* r = open_mode(cx->mode, cx->path, data, n, &keep, &e);
    if ((r != NULL) != (ok_noerr != 0)) { fprintf(out, "BADERR conventions-disagree noerr=%d err=%d ", ok_noerr, r != NULL); }
    free(data);
    if (!r) {
        ex_error_record(&e);
        if (g_errfmt_bad) fprintf(out, "BADERR error-format ");
        fprintf(out, "%s open=%d", err_ok(&e) ? "ERR" : "BADERR", (int)e.code);
        free(keep);
        return;
    }
    if (g_prog) g_prog->a = 2;
    stats_t st; memset(&st, 0, sizeof(st));
    exercise(r, cx->script, &st);
    if (g_prog) g_prog->a = 3;
    carquet_reader_close(r);
    free(keep);
    if (g_errfmt_bad) { st.badcode++; if (!st.badsite) st.badsite = 17; }
    fprintf(out, "%s open=0 calls=%ld errs=%ld first=%d values=%ld okcols=%ld badcode=%ld badsite=%d livelock=%ld",
            st.badcode ? "BADERR" : (st.livelock ? "LIVELOCK" : "OK"), st.calls, st.errs, st.first_err, st.values,
            st.okcols, st.badcode, st.badsite, st.livelock);
}


/* ------------------------------------------------------------------------------------------ C04: probe (model tie) */

extern carquet_status_t carquet_read_next_page(carquet_column_reader_t* reader, void* values, int64_t max_values,
                                               int16_t* def_levels, int16_t* rep_levels, int64_t* values_read,
                                               int64_t* non_null_read, carquet_error_t* error);

/* the page-header parser's verdicts on the windows a load at `off` may try: 256 bytes, then x8 while more bytes
 * are available, up to 16 MiB (every window clamped to the bytes available).  Printed as len@verdict|len@verdict..;
 * returns 1 and the header of the first window that parses. */
static int hdr_oracle(FILE* out, const char* tag, const uint8_t* file, size_t n, int64_t off,
                      size_t* hs_out, parquet_page_header_t* h_out) {
    if (off < 0 || (uint64_t)off >= n) { fprintf(out, " %s=none", tag); return 0; }
    size_t avail = n - (size_t)off, wmax = (size_t)16 << 20;
    size_t w = avail < 256 ? avail : 256;
    fprintf(out, " %s=", tag);
    int first = 1, found = 0;
    for (;;) {
        uint8_t* copy = malloc(w ? w : 1);
        memcpy(copy, file + off, w);
        parquet_page_header_t h; size_t hs = 0;
        carquet_error_t e = CARQUET_ERROR_INIT;
        carquet_status_t st = parquet_parse_page_header(copy, w, &h, &hs, &e);
        free(copy);
        if (st != CARQUET_OK) fprintf(out, "%s%zu@%d", first ? "" : "|", w, (int)st);
        else fprintf(out, "%s%zu@0/%zu/%d/%d/%d/%d/%d/%d/%d", first ? "" : "|", w, hs, (int)h.type, (int)h.uncompressed_page_size,
                     (int)h.compressed_page_size, h.has_crc ? 1 : 0, (int)h.data_page_header.num_values,
                     (int)h.data_page_header.encoding, (int)h.dictionary_page_header.num_values);
        first = 0;
        if (st == CARQUET_OK) { found = 1; if (hs_out) *hs_out = hs; if (h_out) *h_out = h; break; }
        if (!(w < avail && w < wmax)) break;
        w = (w * 8 < wmax) ? w * 8 : wmax;
        if (w > avail) w = avail;
    }
    return found;
}

typedef struct { int mode; const char* path; } probe_ctx;

static void probe_child(void* vctx, FILE* out) {
    probe_ctx* cx = (probe_ctx*)vctx;
    size_t n = 0; uint8_t* data = read_file(cx->path, &n);
    if (!data) { fprintf(out, "ERR cannot-read"); return; }
    carquet_error_t e = CARQUET_ERROR_INIT;
    uint8_t* keep;
    carquet_reader_t* r = open_mode(cx->mode, cx->path, data, n, &keep, &e);
    if (!r) { fprintf(out, "OK n=%zu open=%d", n, err_ok(&e) ? (int)e.code : -1); free(keep); free(data); return; }
    const carquet_schema_t* s = carquet_reader_schema(r);
    int32_t nrg = carquet_reader_num_row_groups(r);
    int32_t nc = carquet_reader_num_columns(r);
    fprintf(out, "OK n=%zu open=0 nrg=%d nc=%d", n, nrg, nc);
    if (s->num_elements > 64 || nrg > 8 || nc > 16) { fprintf(out, " big=1"); carquet_reader_close(r); free(keep); free(data); return; }
    fprintf(out, " S=");
    for (int32_t i = 0; i < s->num_elements; i++)
        fprintf(out, "%s%d,%d,%d", i ? ";" : "", s->elements[i].has_type ? 1 : 0, (int)s->elements[i].type, (int)s->elements[i].type_length);
    fprintf(out, " LV=");
    for (int32_t i = 0; i < s->num_leaves; i++) fprintf(out, "%s%d", i ? "," : "", (int)s->leaf_indices[i]);
    fprintf(out, " RG=");
    int bigcols = 0;
    for (int32_t g = 0; g < nrg; g++) {
        const parquet_row_group_t* rg = &r->metadata.row_groups[g];
        if (rg->num_columns > 16) bigcols = 1;
        fprintf(out, "%s", g ? "|" : "");
        for (int32_t c = 0; c < rg->num_columns && c < 16; c++)
            fprintf(out, "%s%d,%d", c ? ";" : "", rg->columns[c].has_metadata ? 1 : 0, (int)rg->columns[c].metadata.type);
        if (rg->num_columns == 0) fprintf(out, "-");
    }
    if (bigcols) { fprintf(out, " big=1"); carquet_reader_close(r); free(keep); free(data); return; }
    int32_t rgp[] = {-1, 0, 1, nrg - 1, nrg, INT32_MAX};
    int32_t seen_rg[8]; int nseen = 0;
    for (size_t a = 0; a < sizeof(rgp) / sizeof(rgp[0]); a++) {
        int dup = 0;
        for (int k = 0; k < nseen; k++) if (seen_rg[k] == rgp[a]) dup = 1;
        if (dup) continue;
        seen_rg[nseen++] = rgp[a];
        for (int32_t c = -1; c <= nc; c++) {
            if (g_prog) { g_prog->b = rgp[a]; g_prog->c = c; }
            carquet_error_t ge = CARQUET_ERROR_INIT;
            carquet_column_reader_t* col = carquet_reader_get_column(r, rgp[a], c, &ge);
            fprintf(out, " @%d,%d gc=%d", (int)rgp[a], (int)c, col ? 0 : (err_ok(&ge) ? (int)ge.code : -1));
            if (!col) continue;
            const parquet_column_metadata_t* cm = col->col_meta;
            fprintf(out, " T=%d,%d,%d,%d,%d,%d D=%d,%lld,%lld", (int)col->type,
                    (int)s->elements[s->leaf_indices[c]].type, (int)col->type_length, (int)cm->codec,
                    (int)col->max_def_level, (int)col->max_rep_level, cm->has_dictionary_page_offset ? 1 : 0,
                    (long long)cm->dictionary_page_offset, (long long)cm->data_page_offset);
            /* header oracles: first stage, and the data page that follows a dictionary page */
            {
                /* header oracles: first stage, and the data page that follows a dictionary page (announced by
                 * dictionary_page_offset, or found where the data pages start) */
                size_t hs = 0; parquet_page_header_t h;
                int64_t off1 = cm->has_dictionary_page_offset ? cm->dictionary_page_offset : cm->data_page_offset;
                int ok1 = hdr_oracle(out, "H1", data, n, off1, &hs, &h);
                if (ok1 && (cm->has_dictionary_page_offset || h.type == CARQUET_PAGE_DICTIONARY))
                    (void)hdr_oracle(out, "H2", data, n, off1 + (int64_t)hs + h.compressed_page_size, NULL, NULL);
            }
            uint8_t dummy[16]; int64_t nread = 0, nn = 0;
            carquet_error_t le = CARQUET_ERROR_INIT;
            carquet_status_t ls = carquet_read_next_page(col, dummy, 0, NULL, NULL, &nread, &nn, &le);
            fprintf(out, " L=%d", (int)ls);
            if (ls != CARQUET_OK && !err_ok(&le)) fprintf(out, " LBAD=1");
            carquet_column_reader_free(col);
        }
    }
    carquet_reader_close(r);
    free(keep); free(data);
}


/* ------------------------------------------------------------------------------------------ C04: long caller-supplied text */

typedef struct { int len; const char* path; } longerr_ctx;

static void longerr_child(void* vctx, FILE* out) {
    g_errfmt_full = 1;
    longerr_ctx* cx = (longerr_ctx*)vctx;
    int len = cx->len < 8 ? 8 : cx->len;
    int bad = 0, calls = 0, codes[8], nc = 0;
    /* a path of exactly len characters that cannot be opened: components of at most 200 characters */
    char* path = malloc((size_t)len + 1);
    memcpy(path, "/nonexis/", 9 < len ? 9 : len);                 /* inside a directory that does not exist */
    for (int i = 9; i < len; i++) path[i] = ((i - 9) % 201 == 200) ? '/' : (char)('a' + i % 26);
    path[len] = 0;
    for (int mode = 0; mode < 2; mode++) {
        carquet_reader_options_t o; carquet_reader_options_init(&o);
        o.use_mmap = mode == 1;
        carquet_error_t e = CARQUET_ERROR_INIT;
        carquet_reader_t* r = carquet_reader_open(path, &o, &e);
        calls++;
        if (r) { bad++; carquet_reader_close(r); } else { if (!err_ok(&e)) bad++; codes[nc++] = (int)e.code; }
    }
    {   /* the writer's create reports the path too */
        carquet_error_t e = CARQUET_ERROR_INIT;
        carquet_schema_t* s = carquet_schema_create(&e);
        if (s && carquet_schema_add_column(s, "c", CARQUET_PHYSICAL_INT32, NULL, CARQUET_REPETITION_REQUIRED, 0) == CARQUET_OK) {
            carquet_error_t we = CARQUET_ERROR_INIT;
            carquet_writer_t* w = carquet_writer_create(path, s, NULL, &we);
            calls++;
            if (w) { bad++; carquet_writer_abort(w); } else { if (!err_ok(&we)) bad++; codes[nc++] = (int)we.code; }
        }
        carquet_schema_free(s);
    }
    free(path);
    for (int mode = 0; mode < 2; mode++) {        /* a directory is not a file: error, on both path-based routes */
        carquet_reader_options_t o; carquet_reader_options_init(&o);
        o.use_mmap = mode == 1;
        carquet_error_t e = CARQUET_ERROR_INIT;
        carquet_reader_t* r = carquet_reader_open("/verif/harness", &o, &e);
        calls++;
        if (r) { bad++; carquet_reader_close(r); } else { if (!err_ok(&e)) bad++; ex_error_record(&e); }
    }
    if (g_errfmt_bad) bad++;
    /* projection by a name of len characters, on a valid file, through all three open paths */
    size_t n = 0; uint8_t* data = read_file(cx->path, &n);
    char* name = malloc((size_t)len + 1);
    for (int i = 0; i < len; i++) name[i] = (char)('A' + i % 26);
    name[len] = 0;
    for (int mode = 0; data && mode < 3; mode++) {
        carquet_error_t e = CARQUET_ERROR_INIT;
        uint8_t* keep;
        carquet_reader_t* r = open_mode(mode, cx->path, data, n, &keep, &e);
        if (r) {
            carquet_batch_reader_config_t cfg; carquet_batch_reader_config_init(&cfg);
            const char* names[1] = {name};
            cfg.column_names = names; cfg.num_column_names = 1; cfg.num_threads = 1;
            carquet_error_t be = CARQUET_ERROR_INIT;
            carquet_batch_reader_t* br = carquet_batch_reader_create(r, &cfg, &be);
            calls++;
            if (br) { bad++; carquet_batch_reader_free(br); } else { if (!err_ok(&be)) bad++; if (nc < 8) codes[nc++] = (int)be.code; }
            carquet_reader_close(r);
        }
        free(keep);
    }
    free(name); free(data);
    fprintf(out, "%s len=%d calls=%d bad=%d codes=", bad ? "BADERR" : "OK", len, calls, bad);
    for (int i = 0; i < nc; i++) fprintf(out, "%s%d", i ? "," : "", codes[i]);
}

/* CPU budget of a reader case, proportional to the input: 2 s + 1 s per 256 KiB (ASan build; the call
 * scripts are bounded walks).  A 1 KiB file that needs more than 2 CPU seconds is a violation (hang-cpu). */
static int cpu_budget(const char* path) {
    struct stat sb;
    long n = stat(path, &sb) == 0 ? (long)sb.st_size : 0;
#ifdef VERIF_COV
    return 5 * (2 + (int)(n >> 18));       /* coverage audit: the instrumented build is several times slower */
#else
    return 2 + (int)(n >> 18);
#endif
}

/* ------------------------------------------------------------------------------------------ main */

int main(void) {
    g_prog = mmap(NULL, sizeof(progress_t), PROT_READ | PROT_WRITE, MAP_SHARED | MAP_ANONYMOUS, -1, 0);
    if (g_prog == MAP_FAILED) g_prog = NULL;
    static char res[1 << 20];
    while (h_readline()) {
        h_split();
        if (h_ntok == 0) { puts("ERR empty"); fflush(stdout); continue; }
        const char* op = h_tok[0];
        if (!strcmp(op, "gen") && h_ntok == 3) {
            op_gen(h_tok[1], h_tok[2]);
        } else if (!strcmp(op, "genblob") && h_ntok >= 4) {
            op_genblob(atoi(h_tok[1]), h_tok[2], h_ntok - 3, &h_tok[3]);
        } else if (!strcmp(op, "cuts") && h_ntok == 5) {
            cuts_ctx cx = {h_tok[1], h_tok[2], atol(h_tok[3]), atol(h_tok[4])};
            run_forked(cuts_child, &cx, 120, 300, res, sizeof(res));
            puts(res);
        } else if (!strcmp(op, "parse") && h_ntok == 2) {
            op_parse(h_tok[1]);
        } else if (!strcmp(op, "sink") && h_ntok == 7) {
            sink_ctx cx = {h_tok[1], atoi(h_tok[2]), h_tok[3], h_tok[4], h_tok[5], atoi(h_tok[6])};
            run_forked(sink_child, &cx, 20, 60, res, sizeof(res));
            puts(res);
        } else if (!strcmp(op, "abort") && h_ntok == 5) {
            abort_ctx cx = {h_tok[1], atoi(h_tok[2]), atoi(h_tok[3]), h_tok[4]};
            run_forked(abort_child, &cx, 20, 60, res, sizeof(res));
            puts(res);
        } else if (!strcmp(op, "read") && h_ntok == 4) {
            read_ctx cx = {atoi(h_tok[1]), h_tok[2], h_tok[3]};
            run_forked(read_child, &cx, cpu_budget(h_tok[3]), 20, res, sizeof(res));
            puts(res);
        } else if (!strcmp(op, "wmisc") && h_ntok == 2) {
            wmisc_ctx cx = {h_tok[1]};
            run_forked(wmisc_child, &cx, 10, 30, res, sizeof(res));
            puts(res);
        } else if (!strcmp(op, "longerr") && h_ntok == 3) {
            longerr_ctx cx = {atoi(h_tok[1]), h_tok[2]};
            run_forked(longerr_child, &cx, 4, 20, res, sizeof(res));
            puts(res);
        } else if (!strcmp(op, "probe") && h_ntok == 3) {
            probe_ctx cx = {atoi(h_tok[1]), h_tok[2]};
            run_forked(probe_child, &cx, cpu_budget(h_tok[2]), 20, res, sizeof(res));
            puts(res);
        } else {
            puts("ERR unknown-op");
        }
        fflush(stdout);
    }
    free(h_line);
    return 0;
}
