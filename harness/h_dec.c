/* h_dec.c - uniform safety harness for property C08 (component decoders are safe on arbitrary bytes
 * and respect capacities).
 *
 * One case per stdin line:      <op> <p> <count> <cap> <hex> [<hex2>]
 *     op     decoding entry point (table below)
 *     p      bit width (RLE ops), fixed/type length (plain_flba, bss_flba), dictionary entry count (dict_*),
 *            physical type (plain_disp), read size pattern (bitreader); signed decimal
 *     count  requested count / max_values / num_values (signed decimal, passed as is)
 *     cap    declared output capacity where the API has one besides the count (decompressors: dst_capacity
 *            in bytes; delta_str: work_buffer_size); "-" otherwise
 *     hex    input bytes ("-" = empty non-NULL buffer, "null" = NULL pointer with length 0)
 *     hex2   dictionary page bytes (dict_* only)
 * One result line per case:
 *     OK <reported size/count> [<second size>]      the entry point returned success
 *     ERR <code>                                      it returned an error (status code or -1)
 *     VIOL <what> ...                                 it returned, but the oracle below failed
 *     FAULT <sanitizer summary>                       the worker died (ASan / UBSan report, signal)
 *     TIMEOUT <cpu ms>                                the CPU-time limit of the case expired
 *
 * How a case is run.  The process that reads stdin is only a supervisor: it forwards each line to a
 * forked worker and waits for that worker's answer.  The worker
 *   - copies the input into an EXACT-SIZE heap buffer and allocates an EXACT-SIZE output buffer of the
 *     declared capacity (count elements where the count is the capacity), so that every access outside
 *     either is an AddressSanitizer report;
 *   - arms a CPU-time limit (ITIMER_PROF) around the call: termination;
 *   - compares the allocator's live byte count before and after the call (after releasing what the API
 *     hands back on success: the arena of parquet_parse_file_metadata): "failure never leaves memory
 *     allocated"; a difference is re-tested once so that one-time initialisation is not a leak;
 *     LeakSanitizer additionally runs when the worker exits;
 *   - checks the reported size against the capacity / the input length, and that every byte-array view
 *     handed back lies inside the buffer it must point into (and touches every byte of it).
 * When the worker dies the supervisor reads its stderr (a memfd), prints FAULT with the sanitizer's
 * summary for exactly the case it had sent, and forks a new worker.
 *
 * Output buffers above BIG_EXACT bytes cannot be heap objects: they are anonymous mappings that END at a
 * PROT_NONE guard page (an overrun is a SIGSEGV -> FAULT); above BIG_MAP bytes only the first BIG_MAP
 * bytes are backed (the case generator pairs such counts only with inputs that cannot legitimately
 * produce that much output).
 */
#define _GNU_SOURCE
#include "hcommon.h"
#include <unistd.h>
#include <errno.h>
#include <signal.h>
#include <poll.h>
#include <fcntl.h>
#include <sys/wait.h>
#include <sys/mman.h>
#include <sys/time.h>
#include <sys/resource.h>
extern size_t __sanitizer_get_current_allocated_bytes(void);   /* libasan (sanitizer/allocator_interface.h) */

#include <carquet/error.h>
#include <carquet/types.h>
#include "core/buffer.h"
#include "core/bitpack.h"
#include "core/arena.h"
#include "encoding/plain.h"
#include "encoding/rle.h"
#include "thrift/parquet_types.h"
#include "thrift/thrift_decode.h"

extern carquet_status_t carquet_delta_decode_int32(const uint8_t*, size_t, int32_t*, int32_t, size_t*);
extern carquet_status_t carquet_delta_decode_int64(const uint8_t*, size_t, int64_t*, int32_t, size_t*);
extern carquet_status_t carquet_delta_length_decode(const uint8_t*, size_t, carquet_byte_array_t*, int32_t, size_t*);
extern carquet_status_t carquet_delta_strings_decode(const uint8_t*, size_t, carquet_byte_array_t*, int32_t,
                                                     uint8_t*, size_t, size_t*);
extern carquet_status_t carquet_byte_stream_split_decode_float(const uint8_t*, size_t, float*, int64_t);
extern carquet_status_t carquet_byte_stream_split_decode_double(const uint8_t*, size_t, double*, int64_t);
extern carquet_status_t carquet_byte_stream_split_decode(const uint8_t*, size_t, int32_t, uint8_t*, int64_t);
extern carquet_status_t carquet_dictionary_decode_int32(const uint8_t*, size_t, int32_t, const uint8_t*, size_t, int32_t*, int64_t);
extern carquet_status_t carquet_dictionary_decode_int64(const uint8_t*, size_t, int32_t, const uint8_t*, size_t, int64_t*, int64_t);
extern carquet_status_t carquet_dictionary_decode_float(const uint8_t*, size_t, int32_t, const uint8_t*, size_t, float*, int64_t);
extern carquet_status_t carquet_dictionary_decode_double(const uint8_t*, size_t, int32_t, const uint8_t*, size_t, double*, int64_t);
extern int carquet_snappy_decompress(const uint8_t*, size_t, uint8_t*, size_t, size_t*);
extern int carquet_snappy_get_uncompressed_length(const uint8_t*, size_t, size_t*);
extern int carquet_lz4_decompress(const uint8_t*, size_t, uint8_t*, size_t, size_t*);
extern int carquet_gzip_decompress(const uint8_t*, size_t, uint8_t*, size_t, size_t*);
extern int carquet_zstd_decompress(const uint8_t*, size_t, uint8_t*, size_t, size_t*);

const char* __asan_default_options(void) {
    return "detect_leaks=1:allocator_may_return_null=1:max_allocation_size_mb=2048:exitcode=99:abort_on_error=0";
}

/* ------------------------------------------------------------------------------------------------ */
/* worker side                                                                                      */

#define BIG_EXACT ((size_t)16 << 20)     /* up to here: exact heap object (ASan red zones) */
#define BIG_MAP   ((size_t)256 << 20)
#define GUARD_BYTES ((size_t)65536)      /* guard area behind outputs filled by uninstrumented libraries */
extern void __asan_poison_memory_region(void const volatile* addr, size_t size);
extern void __asan_unpoison_memory_region(void const volatile* addr, size_t size);    /* up to here: mapping that ends at a guard page */

static FILE* w_out;                      /* worker -> supervisor */
static long cpu_ms = 3000;

typedef struct { void* p; void* base; size_t maplen; } obuf;

/* every output buffer is pre-filled with g_fill; a case that reports OK is run a second time with another fill byte:
 * the values it REPORTS as decoded must be the same (an element the decoder did not write is not a result) */
static uint8_t g_fill = 0xA5;

/* output buffer of exactly n bytes (see header comment) */
static obuf out_alloc(size_t n) {
    obuf o = {0};
    if (n <= BIG_EXACT) {
        o.base = malloc(n);              /* malloc(0): a valid pointer to a zero-size object */
        if (!o.base) { fprintf(w_out, "SKIP harness-out-of-memory\n"); fflush(w_out); exit(0); }
        o.p = o.base;
        if (n) memset(o.p, g_fill, n);
        return o;
    }
    size_t pg = 4096;
    size_t back = n <= BIG_MAP ? ((n + pg - 1) / pg) * pg : BIG_MAP;
    uint8_t* m = mmap(NULL, back + pg, PROT_READ | PROT_WRITE, MAP_PRIVATE | MAP_ANONYMOUS | MAP_NORESERVE, -1, 0);
    if (m == MAP_FAILED) { fprintf(w_out, "SKIP harness-mmap-failed\n"); fflush(w_out); exit(0); }
    mprotect(m + back, pg, PROT_NONE);
    o.base = m; o.maplen = back + pg;
    o.p = n <= BIG_MAP ? m + back - n : m;   /* the declared end coincides with the guard page */
    /* n is a multiple of the element size and back of the page size: natural alignment is kept */
    return o;
}
static void out_free(obuf* o) {
    if (o->maplen) munmap(o->base, o->maplen); else free(o->base);
    o->p = o->base = NULL; o->maplen = 0;
}

/* input: exact-size heap copy; "null" -> NULL/0 */
static uint8_t* in_alloc(const char* hex, size_t* len) {
    if (!strcmp(hex, "null")) { *len = 0; return NULL; }
    void* base;
    return h_unhex(hex, len, 0, &base);
}

static size_t mulsz(int64_t count, size_t elem) {      /* bytes for max(count,0) elements, saturating */
    if (count <= 0) return 0;
    if (elem == 0) return 0;
    if ((uint64_t)count > (SIZE_MAX / 2) / elem) return SIZE_MAX / 2;
    return (size_t)count * elem;
}

static void on_cpu(int sig) {
    (void)sig;
    char b[64]; int n = snprintf(b, sizeof b, "TIMEOUT %ld\n", cpu_ms);
    if (write(fileno(w_out), b, (size_t)n) < 0) {}
#ifdef VERIF_COV
    { extern void __gcov_dump(void); __gcov_dump(); }   /* coverage audit: keep the counters of this worker */
#endif
    _exit(0);
}
static void arm(void) {
    struct itimerval it = {{0, 0}, {cpu_ms / 1000, (cpu_ms % 1000) * 1000}};
    setitimer(ITIMER_PROF, &it, NULL);
}
static void disarm(void) {
    struct itimerval it = {{0, 0}, {0, 0}};
    setitimer(ITIMER_PROF, &it, NULL);
}

/* every view must lie in [base, base+size) and be readable */
static volatile unsigned g_sink;
static int views_ok(const carquet_byte_array_t* v, int64_t n, const uint8_t* base, size_t size, int64_t* bad) {
    for (int64_t i = 0; i < n; i++) {
        int64_t len = v[i].length;
        if (len < 0) { *bad = i; return 0; }
        if (len == 0) continue;
        if (v[i].data < base || (size_t)(v[i].data - base) > size || (size_t)len > size - (size_t)(v[i].data - base)) {
            *bad = i; return 0;
        }
        unsigned s = 0;
        for (int64_t k = 0; k < len; k++) s += v[i].data[k];
        g_sink += s;
    }
    return 1;
}


/* " v=a,b,c" for at most 64 values (the model tie compares them) */
static void vals_u32(char* dst, size_t dsz, const uint32_t* v, int64_t n) {
    if (n > 64) { dst[0] = 0; return; }
    size_t k = (size_t)snprintf(dst, dsz, " v=%s", n == 0 ? "-" : "");
    for (int64_t i = 0; i < n && k + 16 < dsz; i++) k += (size_t)snprintf(dst + k, dsz - k, "%s%u", i ? "," : "", v[i]);
}
static void vals_i16(char* dst, size_t dsz, const int16_t* v, int64_t n) {
    if (n > 64) { dst[0] = 0; return; }
    size_t k = (size_t)snprintf(dst, dsz, " v=%s", n == 0 ? "-" : "");
    for (int64_t i = 0; i < n && k + 16 < dsz; i++) k += (size_t)snprintf(dst + k, dsz - k, "%s%d", i ? "," : "", (int)v[i]);
}


/* ------------------------------------------------------------------------------------------------ */
/* Exact arena: carquet's arena hands out slices of 64 KiB blocks, so an overrun of one request into the next
 * stays inside a heap object and ASan cannot see it.  The allocation entry points parquet_types.c uses are
 * wrapped at link time (-Wl,--wrap=...): while g_exact_arena is set every request is served by its OWN
 * exact-size heap block (same results as the real functions: NULL for size 0 / overflow / NULL source), kept in
 * a side list and released by exact_free_all(); otherwise the real arena is used. */
static int g_exact_arena;
static void** g_exact; static size_t g_nexact, g_cexact;
static void* exact_get(size_t size, int zero) {
    void* p = zero ? calloc(1, size) : malloc(size);
    if (!p) return NULL;
    if (g_nexact == g_cexact) { g_cexact = g_cexact ? g_cexact * 2 : 1024; g_exact = realloc(g_exact, g_cexact * sizeof(void*)); }
    g_exact[g_nexact++] = p;
    return p;
}
static void exact_free_all(void) {
    for (size_t i = 0; i < g_nexact; i++) free(g_exact[i]);
    g_nexact = 0; free(g_exact); g_exact = NULL; g_cexact = 0;
}
void* __real_carquet_arena_alloc(carquet_arena_t*, size_t);
void* __real_carquet_arena_calloc(carquet_arena_t*, size_t, size_t);
char* __real_carquet_arena_strdup(carquet_arena_t*, const char*);
char* __real_carquet_arena_strndup(carquet_arena_t*, const char*, size_t);
void* __real_carquet_arena_memdup(carquet_arena_t*, const void*, size_t);
void* __wrap_carquet_arena_alloc(carquet_arena_t* a, size_t size) {
    if (!g_exact_arena) return __real_carquet_arena_alloc(a, size);
    return size ? exact_get(size, 0) : NULL;
}
void* __wrap_carquet_arena_calloc(carquet_arena_t* a, size_t count, size_t size) {
    if (!g_exact_arena) return __real_carquet_arena_calloc(a, count, size);
    size_t total = count * size;
    if (count != 0 && total / count != size) return NULL;
    return total ? exact_get(total, 1) : NULL;
}
char* __wrap_carquet_arena_strndup(carquet_arena_t* a, const char* str, size_t max_len) {
    if (!g_exact_arena) return __real_carquet_arena_strndup(a, str, max_len);
    if (!str) return NULL;
    size_t len = 0;
    while (len < max_len && str[len]) len++;
    char* c = exact_get(len + 1, 0);
    if (c) { memcpy(c, str, len); c[len] = 0; }
    return c;
}
char* __wrap_carquet_arena_strdup(carquet_arena_t* a, const char* str) {
    if (!g_exact_arena) return __real_carquet_arena_strdup(a, str);
    return str ? __wrap_carquet_arena_strndup(a, str, strlen(str)) : NULL;
}
void* __wrap_carquet_arena_memdup(carquet_arena_t* a, const void* src, size_t size) {
    if (!g_exact_arena) return __real_carquet_arena_memdup(a, src, size);
    if (!src || size == 0) return NULL;
    void* c = exact_get(size, 0);
    if (c) memcpy(c, src, size);
    return c;
}

/* walk what parquet_parse_file_metadata built: every string / array it hands back must be readable */
static unsigned walk_metadata(const parquet_file_metadata_t* m) {
    unsigned s = 0;
    for (int32_t i = 0; i < m->num_schema_elements && m->schema; i++)
        if (m->schema[i].name) s += (unsigned)strlen(m->schema[i].name);
    for (int32_t i = 0; i < m->num_key_value && m->key_value_metadata; i++) {
        if (m->key_value_metadata[i].key) s += (unsigned)strlen(m->key_value_metadata[i].key);
        if (m->key_value_metadata[i].value) s += (unsigned)strlen(m->key_value_metadata[i].value);
    }
    if (m->created_by) s += (unsigned)strlen(m->created_by);
    for (int32_t g = 0; g < m->num_row_groups && m->row_groups; g++)
        for (int32_t c = 0; c < m->row_groups[g].num_columns && m->row_groups[g].columns; c++) {
            const parquet_column_chunk_t* cc = &m->row_groups[g].columns[c];
            if (cc->file_path) s += (unsigned)strlen(cc->file_path);
            const parquet_column_metadata_t* cm = &cc->metadata;
            for (int32_t i = 0; i < cm->num_encodings && cm->encodings; i++) s += (unsigned)cm->encodings[i];
            for (int32_t i = 0; i < cm->path_len && cm->path_in_schema; i++)
                if (cm->path_in_schema[i]) s += (unsigned)strlen(cm->path_in_schema[i]);
            for (int32_t i = 0; i < cm->num_key_value && cm->key_value_metadata; i++) {
                if (cm->key_value_metadata[i].key) s += (unsigned)strlen(cm->key_value_metadata[i].key);
                if (cm->key_value_metadata[i].value) s += (unsigned)strlen(cm->key_value_metadata[i].value);
            }
            for (int32_t i = 0; i < cm->num_encoding_stats && cm->encoding_stats; i++) s += (unsigned)cm->encoding_stats[i].count;
            const parquet_statistics_t* stt = &cm->statistics;
            for (int32_t i = 0; stt->max_value && i < stt->max_value_len; i++) s += stt->max_value[i];
            for (int32_t i = 0; stt->min_value && i < stt->min_value_len; i++) s += stt->min_value[i];
            for (int32_t i = 0; stt->max_deprecated && i < stt->max_deprecated_len; i++) s += stt->max_deprecated[i];
            for (int32_t i = 0; stt->min_deprecated && i < stt->min_deprecated_len; i++) s += stt->min_deprecated[i];
        }
    for (int32_t i = 0; i < m->num_schema_elements && m->schema; i++) s += (unsigned)m->schema[i].type_length + (unsigned)m->schema[i].num_children;
    return s;
}

typedef struct {
    const char* op; int64_t p; int64_t count; size_t cap; int has_cap;
    const char* hex; const char* hex2;
} kase;

/* result of one execution */
typedef struct { char line[2048]; uint64_t dig; int has_dig; } result;
static uint64_t fnv(const void* p, size_t n) { const uint8_t* b = p; uint64_t h = 1469598103934665603ULL; for (size_t i = 0; i < n; i++) { h ^= b[i]; h *= 1099511628211ULL; } return h; }
#define DIG(ptr, nbytes) do { if ((nbytes) <= BIG_EXACT) { r->dig = fnv((ptr), (nbytes)); r->has_dig = 1; } } while (0)

#define RES(...) snprintf(r->line, sizeof r->line, __VA_ARGS__)

static void run_case(const kase* k, result* r, size_t* a0, size_t* a1) {
    size_t n = 0, n2 = 0;
    uint8_t* in = in_alloc(k->hex, &n);
    uint8_t* in2 = NULL;
    const char* op = k->op;
    int64_t count = k->count;
    obuf o = {0}, o2 = {0};
    r->line[0] = 0; r->dig = 0; r->has_dig = 0;

#define BEGIN() do { *a0 = __sanitizer_get_current_allocated_bytes(); arm(); } while (0)
#define END()   do { disarm(); *a1 = __sanitizer_get_current_allocated_bytes(); } while (0)

    if (!strcmp(op, "rle_all")) {
        o = out_alloc(mulsz(count, 4));
        BEGIN(); int64_t got = carquet_rle_decode_all(in, n, (int)k->p, o.p, count); END();
        if (got < 0) RES("ERR %" PRId64, got);
        else if (got > (count > 0 ? count : 0)) RES("VIOL count-exceeds-max %" PRId64 " > %" PRId64, got, count);
        else { char vb[900]; vals_u32(vb, sizeof vb, o.p, got); RES("OK %" PRId64 "%s", got, vb); DIG(o.p, (size_t)got * 4); }
    } else if (!strcmp(op, "rle_stream")) {
        /* the streaming decoder: get_batch / skip / get interleaved, at most count values in total */
        o = out_alloc(mulsz(count, 4));
        uint32_t* out = o.p;
        BEGIN();
        carquet_rle_decoder_t dec;
        carquet_rle_decoder_init(&dec, in, n, (int)k->p);
        int64_t total = 0, step = 0; int bad = 0;
        static const int pat[] = {1, 3, 8, 5, 2, 13, 7, 64, 9};
        while (total < count && carquet_rle_decoder_has_next(&dec)) {
            uint64_t h = ((uint64_t)count * 31 + n + (uint64_t)step * 0x9E3779B97F4A7C15ULL) >> 17;   /* op order varies per case */
            int64_t want = pat[(step + (h >> 8)) % 9]; if (want > count - total) want = count - total;
            int64_t got;
            switch (h % 3) {
                case 0: got = carquet_rle_decoder_get_batch(&dec, out + total, want); break;
                case 1: got = carquet_rle_decoder_skip(&dec, want); break;
                default: out[total] = carquet_rle_decoder_get(&dec);
                         got = dec.status == CARQUET_OK ? 1 : 0; want = 1; break;
            }
            if (got < 0 || got > want) { bad = 1; break; }
            total += got; step++;
            if (got == 0) break;
        }
        int st = dec.status;
        /* after the end / after an error every call must deliver nothing and leave the state alone */
        if (carquet_rle_decoder_has_next(&dec) && total < count) bad = 1;
        if (total >= count || st != CARQUET_OK || !carquet_rle_decoder_has_next(&dec)) {
            uint32_t scratch[4];
            if (st != CARQUET_OK || !carquet_rle_decoder_has_next(&dec)) {
                if (carquet_rle_decoder_get_batch(&dec, scratch, 4) != 0) bad = 1;
                if (carquet_rle_decoder_skip(&dec, 4) != 0) bad = 1;
                (void)carquet_rle_decoder_get(&dec);
            }
        }
        END();
        if (bad) RES("VIOL stream-count-exceeds-request");
        else if (st != CARQUET_OK) RES("ERR %d", st);
        else RES("OK %" PRId64, total);
    } else if (!strcmp(op, "rle_levels")) {
        o = out_alloc(mulsz(count, 2));
        BEGIN(); int64_t got = carquet_rle_decode_levels(in, n, (int)k->p, o.p, count); END();
        if (got < 0) RES("ERR %" PRId64, got);
        else if (got > (count > 0 ? count : 0)) RES("VIOL count-exceeds-max %" PRId64 " > %" PRId64, got, count);
        else { char vb[900]; vals_i16(vb, sizeof vb, o.p, got); RES("OK %" PRId64 "%s", got, vb); DIG(o.p, (size_t)got * 2); }
    } else if (!strcmp(op, "rle_levels_pref")) {
        o = out_alloc(mulsz(count, 2));
        size_t used = (size_t)-1;
        int nullc = k->has_cap && k->cap == 0;                      /* cap token 0: bytes_consumed = NULL */
        BEGIN(); int64_t got = carquet_rle_decode_levels_prefixed(in, n, (int)k->p, o.p, count, nullc ? NULL : &used); END();
        if (nullc) used = 0;
        if (got < 0) { if (used != 0) RES("VIOL consumed-nonzero-on-error %zu", used); else RES("ERR %" PRId64, got); }
        else if (got > (count > 0 ? count : 0)) RES("VIOL count-exceeds-max %" PRId64 " > %" PRId64, got, count);
        else if (used > n) RES("VIOL consumed-exceeds-input %zu > %zu", used, n);
        else { char vb[900]; vals_i16(vb, sizeof vb, o.p, got); RES("OK %" PRId64 " %zu%s", got, used, vb); DIG(o.p, (size_t)got * 2); }
    } else if (!strncmp(op, "plain_", 6)) {
        const char* t = op + 6;
        size_t es = !strcmp(t, "bool") ? 1 : !strcmp(t, "i32") || !strcmp(t, "f32") ? 4 :
                    !strcmp(t, "i64") || !strcmp(t, "f64") ? 8 : !strcmp(t, "i96") ? 12 :
                    !strcmp(t, "ba") ? sizeof(carquet_byte_array_t) :
                    !strcmp(t, "flba") ? (k->p > 0 ? (size_t)k->p : 0) : 0;
        int64_t got = -2; int64_t bad = -1; int vok = 1;
        if (!strcmp(t, "disp")) {
            /* carquet_decode_plain: p = physical type (also out of range); FIXED_LEN type_length 3 */
            static const size_t sz[8] = {1, 4, 8, 12, 4, 8, sizeof(carquet_byte_array_t), 3};
            es = (k->p >= 0 && k->p < 8) ? sz[k->p] : 1;
            o = out_alloc(mulsz(count, es));
            BEGIN(); got = carquet_decode_plain(in, n, (carquet_physical_type_t)k->p, 3, o.p, count); END();
            if (got >= 0 && k->p == 6) vok = views_ok(o.p, count, in, n, &bad);
        } else {
            o = out_alloc(mulsz(count, es));
            void* save = o.p;
            if (strcmp(t, "flba") && (k->p & 1)) o.p = NULL;              /* p bit 0 (not flba): output = NULL -> must be refused */
            BEGIN();
            if (!strcmp(t, "bool")) got = carquet_decode_plain_boolean(in, n, o.p, count);
            else if (!strcmp(t, "i32")) got = carquet_decode_plain_int32(in, n, o.p, count);
            else if (!strcmp(t, "i64")) got = carquet_decode_plain_int64(in, n, o.p, count);
            else if (!strcmp(t, "i96")) got = carquet_decode_plain_int96(in, n, o.p, count);
            else if (!strcmp(t, "f32")) got = carquet_decode_plain_float(in, n, o.p, count);
            else if (!strcmp(t, "f64")) got = carquet_decode_plain_double(in, n, o.p, count);
            else if (!strcmp(t, "ba")) got = carquet_decode_plain_byte_array(in, n, o.p, count);
            else if (!strcmp(t, "flba")) got = carquet_decode_plain_fixed_byte_array(in, n, o.p, count, (int32_t)k->p);
            END();
            if (o.p == NULL && save != NULL) { if (got >= 0) got = -9; o.p = save; }
            if (got >= 0 && !strcmp(t, "ba")) vok = views_ok(o.p, count, in, n, &bad);
        }
        if (got == -2) RES("SKIP unknown-op");
        else if (got < 0) RES("ERR %" PRId64, got);
        else if ((uint64_t)got > n) RES("VIOL consumed-exceeds-input %" PRId64 " > %zu", got, n);
        else if (!vok) RES("VIOL view-outside-input index %" PRId64, bad);
        else { RES("OK %" PRId64, got); if (strcmp(t, "ba") && !(!strcmp(t, "disp") && k->p == 6) && count > 0) DIG(o.p, mulsz(count, es)); }
    } else if (!strcmp(op, "delta_i32") || !strcmp(op, "delta_i64")) {
        int is64 = op[7] == '6';
        int32_t nv = (int32_t)count;
        o = out_alloc(mulsz(nv, is64 ? 8 : 4));
        size_t used = 0;
        BEGIN();
        size_t* up = (k->p & 1) ? NULL : &used;                     /* p bit 0: bytes_consumed = NULL */
        int st = is64 ? carquet_delta_decode_int64(in, n, o.p, nv, up) : carquet_delta_decode_int32(in, n, o.p, nv, up);
        END();
        if (st != CARQUET_OK) RES("ERR %d", st);
        else if (used > n) RES("VIOL consumed-exceeds-input %zu > %zu", used, n);
        else { RES("OK %zu", used); if (nv > 0) DIG(o.p, mulsz(nv, is64 ? 8 : 4)); }
    } else if (!strcmp(op, "delta_len")) {
        int32_t nv = (int32_t)count;
        o = out_alloc(mulsz(nv, sizeof(carquet_byte_array_t)));
        size_t used = 0; int64_t bad = -1;
        BEGIN(); int st = carquet_delta_length_decode(in, n, (k->p & 2) ? NULL : o.p, nv, (k->p & 1) ? NULL : &used); END();   /* p bit 0 / 1: NULL out-parameters */
        if ((k->p & 2) && st == CARQUET_OK) st = -9;
        if (st != CARQUET_OK) RES("ERR %d", st);
        else if (used > n) RES("VIOL consumed-exceeds-input %zu > %zu", used, n);
        else if (!views_ok(o.p, nv, in, n, &bad)) RES("VIOL view-outside-input index %" PRId64, bad);
        else RES("OK %zu", used);
    } else if (!strcmp(op, "delta_str")) {
        int32_t nv = (int32_t)count;
        o = out_alloc(mulsz(nv, sizeof(carquet_byte_array_t)));
        o2 = out_alloc(k->cap);
        size_t used = 0; int64_t bad = -1;
        BEGIN(); int st = carquet_delta_strings_decode(in, n, (k->p & 2) ? NULL : o.p, nv, o2.p, k->cap, (k->p & 1) ? NULL : &used); END();
        if ((k->p & 2) && st == CARQUET_OK) st = -9;
        if (st != CARQUET_OK) RES("ERR %d", st);
        else if (used > n) RES("VIOL consumed-exceeds-input %zu > %zu", used, n);
        else if (!views_ok(o.p, nv, o2.p, k->cap, &bad)) RES("VIOL view-outside-work-buffer index %" PRId64, bad);
        else {
            size_t tot = 0; const carquet_byte_array_t* v = o.p;
            for (int32_t i = 0; i < nv; i++) tot += (size_t)v[i].length;
            if (tot > k->cap) RES("VIOL total-exceeds-work-buffer %zu > %zu", tot, k->cap);
            else RES("OK %zu %zu", used, tot);
        }
    } else if (!strcmp(op, "bss_f32") || !strcmp(op, "bss_f64") || !strcmp(op, "bss_flba")) {
        size_t es = op[4] == 'f' && op[5] == '3' ? 4 : op[4] == 'f' && op[5] == '6' ? 8 : (k->p > 0 ? (size_t)k->p : 0);
        o = out_alloc(mulsz(count, es));
        int st;
        BEGIN();
        void* vp = (op[4] == 'f' && op[5] != 'l' && (k->p & 1)) ? NULL : o.p;        /* p bit 0 (float / double): values = NULL */
        if (es == 4 && op[5] == '3') st = carquet_byte_stream_split_decode_float(in, n, vp, count);
        else if (es == 8 && op[5] == '6') st = carquet_byte_stream_split_decode_double(in, n, vp, count);
        else st = carquet_byte_stream_split_decode(in, n, (int32_t)k->p, o.p, count);
        END();
        if (vp == NULL && st == CARQUET_OK) RES("VIOL null-output-accepted");
        else if (st != CARQUET_OK) RES("ERR %d", st);
        else { RES("OK %" PRId64, count > 0 ? count : 0); if (count > 0) DIG(o.p, mulsz(count, es)); }
    } else if (!strncmp(op, "dict_", 5)) {
        const char* t = op + 5;
        size_t es = !strcmp(t, "i32") || !strcmp(t, "f32") ? 4 : 8;
        in2 = in_alloc(k->hex2 ? k->hex2 : "-", &n2);
        o = out_alloc(mulsz(count, es));
        int st = -2;
        BEGIN();
        if (!strcmp(t, "i32")) st = carquet_dictionary_decode_int32(in2, n2, (int32_t)k->p, in, n, o.p, count);
        else if (!strcmp(t, "i64")) st = carquet_dictionary_decode_int64(in2, n2, (int32_t)k->p, in, n, o.p, count);
        else if (!strcmp(t, "f32")) st = carquet_dictionary_decode_float(in2, n2, (int32_t)k->p, in, n, o.p, count);
        else if (!strcmp(t, "f64")) st = carquet_dictionary_decode_double(in2, n2, (int32_t)k->p, in, n, o.p, count);
        END();
        if (st == -2) RES("SKIP unknown-op");
        else if (st != CARQUET_OK) RES("ERR %d", st);
        else { RES("OK %" PRId64, count > 0 ? count : 0); if (count > 0) DIG(o.p, mulsz(count, es)); }
    } else if (!strcmp(op, "snappy") || !strcmp(op, "lz4")) {
        o = out_alloc(k->cap);
        size_t got = (size_t)-1; int st;
        BEGIN();
        void* dp = (k->p & 1) ? NULL : o.p; size_t* gp = (k->p & 2) ? NULL : &got;     /* p bits: dst = NULL / dst_size = NULL */
        if (op[0] == 's') st = carquet_snappy_decompress(in, n, dp, k->cap, gp);
        else st = carquet_lz4_decompress(in, n, dp, k->cap, gp);
        END();
        if ((k->p & 3) && st == CARQUET_OK) st = -9;
        if (st != CARQUET_OK) RES("ERR %d", st);
        else if (got > k->cap) RES("VIOL size-exceeds-capacity %zu > %zu", got, k->cap);
        else { RES("OK %zu", got); DIG(o.p, got); }
    } else if (!strcmp(op, "gzip") || !strcmp(op, "zstd")) {
        /* zlib / libzstd are system libraries WITHOUT sanitizer instrumentation: a store they make past the
         * declared capacity is invisible to ASan even on an exact-size heap block.  The output therefore gets
         * a GUARD area of known bytes right behind the declared capacity; it is poisoned for instrumented
         * code (carquet itself, intercepted memcpy/memset) during the call and compared afterwards. */
        size_t guard = k->cap <= BIG_EXACT ? GUARD_BYTES : 0;
        uint8_t* blk = NULL; uint8_t* dstp;
        if (guard) {
            blk = malloc(k->cap + guard);
            if (!blk) { RES("SKIP harness-out-of-memory"); goto done_codec; }
            memset(blk, g_fill, k->cap);
            for (size_t i = 0; i < guard; i++) blk[k->cap + i] = (uint8_t)(0xC3 ^ (i * 7));
            __asan_poison_memory_region(blk + k->cap, guard);
            dstp = blk;
        } else {
            o = out_alloc(k->cap);
            dstp = o.p;
        }
        size_t got = (size_t)-1; int st;
        BEGIN();
        void* dp = (k->p & 1) ? NULL : dstp; size_t* gp = (k->p & 2) ? NULL : &got;
        if (op[0] == 'g') st = carquet_gzip_decompress(in, n, dp, k->cap, gp);
        else st = carquet_zstd_decompress(in, n, dp, k->cap, gp);
        END();
        if ((k->p & 3) && st == CARQUET_OK) st = -9;
        size_t first_bad = (size_t)-1, nbad = 0;
        if (guard) {
            __asan_unpoison_memory_region(blk + k->cap, guard);
            for (size_t i = 0; i < guard; i++)
                if (blk[k->cap + i] != (uint8_t)(0xC3 ^ (i * 7))) { if (first_bad == (size_t)-1) first_bad = i; nbad++; }
        }
        if (nbad) RES("VIOL guard-overwritten %zu byte(s) behind the declared capacity %zu (first at +%zu) status=%d reported=%zu",
                      nbad, k->cap, first_bad, st, st == CARQUET_OK ? got : 0);
        else if (st != CARQUET_OK) RES("ERR %d", st);
        else if (got > k->cap) RES("VIOL size-exceeds-capacity %zu > %zu", got, k->cap);
        else { RES("OK %zu", got); DIG(dstp, got); }
        free(blk);
done_codec: ;
    } else if (!strcmp(op, "snappy_len")) {
        size_t got = 0;
        BEGIN(); int st = carquet_snappy_get_uncompressed_length(in, n, (k->p & 2) ? NULL : &got); END();
        if ((k->p & 2) && st == CARQUET_OK) st = -9;
        if (st != CARQUET_OK) RES("ERR %d", st); else RES("OK %zu", got);
    } else if (!strcmp(op, "thrift_ph")) {
        parquet_page_header_t* h = malloc(sizeof *h);
        carquet_error_t* e = malloc(sizeof *e);
        size_t used = (size_t)-1;
        BEGIN(); int st = parquet_parse_page_header(in, n, (k->p & 2) ? NULL : h, (k->p & 1) ? NULL : &used, (k->p & 4) ? NULL : e); END();   /* p bits: NULL header / bytes_read / error */
        if ((k->p & 3) && st == CARQUET_OK) st = -9;
        int vbad = 0;
        if (st == CARQUET_OK && !(k->p & 3) && h->type == CARQUET_PAGE_DATA && h->data_page_header.has_statistics) {   /* the union member selected by type */
            /* since /repo 1aabf2d the statistics of a data page header are parsed and min/max are views
             * into the input: they must lie inside it (and every byte is touched) */
            const parquet_statistics_t* s4 = &h->data_page_header.statistics;
            carquet_byte_array_t v4[4] = {{s4->max_deprecated, s4->max_deprecated_len}, {s4->min_deprecated, s4->min_deprecated_len},
                                          {s4->max_value, s4->max_value_len}, {s4->min_value, s4->min_value_len}};
            for (int i = 0; i < 4; i++) if (!v4[i].data) v4[i].length = 0;
            int64_t bad = -1;
            if (!views_ok(v4, 4, in, n, &bad)) vbad = 1;
        }
        if (st != CARQUET_OK) RES("ERR %d", st);
        else if (used > n) RES("VIOL consumed-exceeds-input %zu > %zu", used, n);
        else if (vbad) RES("OK %zu statsview=outside", used);   /* judged by checks/C08.py (known finding: union overlap) */
        else RES("OK %zu", used);
        free(h); free(e);
    } else if (!strcmp(op, "thrift_fm")) {
        /* two passes over the same input: the production arena, then the exact arena (one heap block per
         * request, so that an overrun of one array / string into its neighbour is an ASan report) */
        parquet_file_metadata_t* m = malloc(sizeof *m);
        carquet_error_t* e = malloc(sizeof *e);
        carquet_arena_t arena;
        BEGIN();
        int st = carquet_arena_init(&arena) == CARQUET_OK ? 0 : -3;
        long ns = 0, ng = 0; int st2 = -3; long ns2 = 0, ng2 = 0;
        if (st == 0) {
            st = parquet_parse_file_metadata(in, n, (k->p & 1) ? NULL : &arena, (k->p & 2) ? NULL : m, (k->p & 4) ? NULL : e);   /* p bits: NULL arena / metadata / error */
            if ((k->p & 3) && st == CARQUET_OK) st = -9;
            if (st == CARQUET_OK) { ns = m->num_schema_elements; ng = m->num_row_groups; g_sink += walk_metadata(m); }
            carquet_arena_destroy(&arena);
        }
        if (carquet_arena_init(&arena) == CARQUET_OK) {
            g_exact_arena = 1;
            st2 = parquet_parse_file_metadata(in, n, (k->p & 1) ? NULL : &arena, (k->p & 2) ? NULL : m, (k->p & 4) ? NULL : e);
            if ((k->p & 3) && st2 == CARQUET_OK) st2 = -9;
            if (st2 == CARQUET_OK) { ns2 = m->num_schema_elements; ng2 = m->num_row_groups; g_sink += walk_metadata(m); }
            g_exact_arena = 0;
            exact_free_all();
            carquet_arena_destroy(&arena);
        }
        END();
        if (st != st2 || ns != ns2 || ng != ng2) RES("VIOL arena-dependent-result %d/%ld/%ld vs %d/%ld/%ld", st, ns, ng, st2, ns2, ng2);
        else if (st != CARQUET_OK) RES("ERR %d", st); else RES("OK %ld %ld", ns, ng);
        free(m); free(e);
    } else if (!strcmp(op, "thrift_prim")) {
        /* the decoder primitives of thrift_decode.c that the two parsers do not call (double, uuid, allocated
         * string, set header, skip_field, init from a reader) and the others, in a p-derived order, on exactly n
         * bytes, until the decoder reports an error or stops advancing */
        BEGIN();
        carquet_buffer_reader_t rd0;
        carquet_buffer_reader_init_data(&rd0, in, n);
        thrift_decoder_t dec;
        if (k->p & 1) thrift_decoder_init_reader(&dec, &rd0); else thrift_decoder_init(&dec, in, n);
        size_t steps = 0; unsigned s = 0; int bad = 0;
        while (dec.status == CARQUET_OK && steps < 4 * n + 16) {
            size_t before = dec.reader.pos;
            switch ((int)((k->p / 2 + (int64_t)steps * (1 + k->count % 7)) % 14)) {
                case 0: { double d = thrift_read_double(&dec); s += (unsigned)(d != 0.0); break; }
                case 1: { uint8_t u[16]; thrift_read_uuid(&dec, u); s += u[0] + u[15]; break; }
                case 2: { char* str = thrift_read_string_alloc(&dec); if (str) { s += (unsigned)strlen(str); free(str); } break; }
                case 3: { thrift_type_t et; int32_t c; thrift_read_set_begin(&dec, &et, &c);
                          if (c < 0 || (size_t)c > n) bad = 1; s += (unsigned)et; break; }
                case 4: thrift_skip_field(&dec, (thrift_type_t)(dec.reader.pos < n ? in[dec.reader.pos] & 15 : 5)); break;
                case 5: { thrift_type_t ft; int16_t id; if (steps & 1) thrift_read_struct_begin(&dec);   /* also at nesting level 0 */
                          if (thrift_read_field_begin(&dec, &ft, &id)) thrift_skip_field(&dec, ft);
                          thrift_read_struct_end(&dec); break; }
                case 6: { int32_t len = 0; const uint8_t* b = thrift_read_binary(&dec, &len);
                          if (b) { if (len < 0 || b < in || (size_t)(b - in) + (size_t)len > n) bad = 1; else for (int32_t i = 0; i < len; i++) s += b[i]; }
                          break; }
                case 7: { thrift_type_t kt, vt; int32_t c; thrift_read_map_begin(&dec, &kt, &vt, &c); if (c < 0 || (size_t)c > n) bad = 1; break; }
                case 8: { thrift_type_t et; int32_t c; thrift_read_list_begin(&dec, &et, &c); if (c < 0 || (size_t)c > n) bad = 1; break; }
                case 9: s += (unsigned)thrift_read_i64(&dec); break;
                case 10: s += (unsigned)thrift_read_i16(&dec) + (unsigned)thrift_read_byte(&dec); break;
                case 11: s += (unsigned)thrift_read_bool(&dec); break;
                case 12: s += (unsigned)thrift_read_i32(&dec); break;
                default: s += (unsigned)strlen(thrift_type_name((thrift_type_t)(steps % 16))); thrift_skip(&dec, THRIFT_TYPE_BYTE); break;
            }
            if (dec.reader.pos > n) { bad = 1; break; }
            steps++;
            if (dec.reader.pos == before && steps > n + 16) break;
        }
        g_sink += s;
        size_t used = dec.reader.pos; int st = dec.status;
        END();
        if (bad) RES("VIOL thrift-primitive-out-of-range");
        else if (used > n) RES("VIOL consumed-exceeds-input %zu > %zu", used, n);
        else if (st != CARQUET_OK) RES("ERR %d", st);
        else RES("OK %zu", used);
    } else if (!strcmp(op, "bitunpack")) {
        /* carquet_bitunpack_32 / the per-width group kernels: p = width 0..32, count values; CONTRACT of these
         * functions: the caller provides carquet_packed_size(count, width) bytes (rle.c / delta.c test exactly that) */
        if (k->p < 0 || k->p > 32 || count < 0 || count > (1 << 20)) RES("SKIP outside-contract");
        else {
            size_t need = carquet_packed_size((size_t)count, (int)k->p);
            if (n < need) RES("SKIP outside-contract");
            else {
                uint8_t* ex = malloc(need);                    /* exactly the bytes the contract promises */
                if (need) memcpy(ex, in, need);
                o = out_alloc(mulsz(count, 4));
                BEGIN();
                size_t used = carquet_bitunpack_32(ex, (size_t)count, (int)k->p, o.p);
                carquet_bitunpack8_fn fn = carquet_get_bitunpack8_fn((int)k->p);
                if (fn && count >= 8) { uint32_t g8[8]; fn(ex, g8); if (memcmp(g8, o.p, 32)) used = (size_t)-1; }
                END();
                if (used == (size_t)-1) RES("VIOL group-kernel-differs-from-bitunpack_32");
                else if (used > need) RES("VIOL consumed-exceeds-input %zu > %zu", used, need);
                else RES("OK %zu", used);
                free(ex);
            }
        }
    } else if (!strcmp(op, "bitreader")) {
        /* carquet_bit_reader over exactly n bytes: reads of p-derived widths until exhausted */
        BEGIN();
        carquet_bit_reader_t br;
        carquet_bit_reader_init(&br, in, n);
        size_t steps = 0, bits = 0; unsigned s = 0;
        while (carquet_bit_reader_has_more(&br) && steps < 8 * n + 8) {
            if (steps % 11 == 3) { s += carquet_bit_reader_read_bits(&br, 0); s += (unsigned)carquet_bit_reader_read_bits64(&br, 0); }
            if (steps % 13 == 5) { s += (unsigned)carquet_bit_reader_read_bits64(&br, 70); s += carquet_bit_reader_read_bits(&br, 40); }   /* clamped to 64 / 32 */
            int nb = (int)((k->p + (int64_t)steps * 7) % 65);
            if (nb < 0) nb = -nb;
            if (nb == 0) { int b = carquet_bit_reader_read_bit(&br); if (b < 0) break; s += (unsigned)b; bits += 1; }
            else if (nb <= 32 && (steps & 1)) { s += carquet_bit_reader_read_bits(&br, nb); bits += (size_t)nb; }
            else if (nb <= 32) { s += (unsigned)carquet_bit_reader_read_bits64(&br, nb); bits += (size_t)nb;
                                 s += (unsigned)carquet_bit_reader_remaining_bits(&br); }
            else { s += (unsigned)carquet_bit_reader_read_bits64(&br, nb); bits += (size_t)nb; }
            steps++;
        }
        s += (unsigned)carquet_bit_reader_read_bit(&br);   /* at / past the end (the reader's state after reading past the end is not part of C08) */
        g_sink += s;
        END();
        RES("OK %zu", steps);
    } else {
        RES("SKIP unknown-op");
        *a0 = *a1 = 0;
    }
    out_free(&o);
    if (o2.base) out_free(&o2);
    free(in); free(in2);
}

static int parse_case(char* line, kase* k) {
    char* tok[8]; int nt = 0;
    char* p = line;
    while (*p && nt < 8) {
        while (*p == ' ') p++;
        if (!*p) break;
        tok[nt++] = p;
        while (*p && *p != ' ') p++;
        if (*p) *p++ = 0;
    }
    if (nt < 5) return 0;
    k->op = tok[0];
    k->p = strtoll(tok[1], NULL, 10);
    k->count = strtoll(tok[2], NULL, 10);
    k->has_cap = strcmp(tok[3], "-") != 0;
    k->cap = k->has_cap ? (size_t)strtoull(tok[3], NULL, 10) : 0;
    k->hex = tok[4];
    k->hex2 = nt > 5 ? tok[5] : NULL;
    return 1;
}

static void worker_main(int fd_in, int fd_out) {
    FILE* in = fdopen(fd_in, "r");
    w_out = fdopen(fd_out, "w");
    signal(SIGPROF, on_cpu);
    char* line = NULL; size_t cap = 0; ssize_t len;
    while ((len = getline(&line, &cap, in)) >= 0) {
        while (len > 0 && (line[len-1] == '\n' || line[len-1] == '\r')) line[--len] = 0;
        char* copy = strdup(line); char* copy3 = strdup(line);
        kase k; result r; size_t a0 = 0, a1 = 0;
        if (!parse_case(line, &k)) { fprintf(w_out, "SKIP malformed-case\n"); fflush(w_out); free(copy); free(copy3); continue; }
        run_case(&k, &r, &a0, &a1);
        if (a1 > a0) {
            /* live heap grew across the call: one-time initialisation, or a leak?  run it again */
            kase k2; result r2; size_t b0 = 0, b1 = 0;
            parse_case(copy, &k2);
            run_case(&k2, &r2, &b0, &b1);
            if (b1 > b0) {
                char first[32]; sscanf(r.line, "%31s", first);
                snprintf(r.line, 512, "VIOL leak %zu bytes-left-allocated after=%s", b1 - b0, first);
            }
        }
        if (r.has_dig && !strncmp(r.line, "OK", 2)) {
            /* the same call once more over a differently pre-filled output: what is reported as decoded must not
             * depend on what the buffer held before (unwritten elements reported as values) */
            kase k3; result r3; size_t c0 = 0, c1 = 0;
            parse_case(copy3, &k3);
            g_fill = 0x5A;
            run_case(&k3, &r3, &c0, &c1);
            g_fill = 0xA5;
            if (r3.has_dig && !strncmp(r3.line, "OK", 2) && r3.dig != r.dig)
                snprintf(r.line, 512, "VIOL reported-values-depend-on-prior-buffer-content (elements reported as decoded were not written)");
            else if (strncmp(r3.line, "OK", 2))
                snprintf(r.line, 512, "VIOL result-not-deterministic second run: %.200s", r3.line);
        }
        free(copy3);
        free(copy);
        fprintf(w_out, "%s\n", r.line);
        fflush(w_out);
    }
    free(line);
    fclose(in);
    /* normal exit: LeakSanitizer runs now */
    exit(0);
}

/* ------------------------------------------------------------------------------------------------ */
/* supervisor side                                                                                  */

static pid_t w_pid = -1;
static int to_w = -1, from_w = -1, err_fd = -1;

static void spawn(void) {
    int a[2], b[2];
    if (pipe(a) || pipe(b)) { perror("pipe"); exit(96); }
    if (err_fd < 0) err_fd = memfd_create("h_dec_stderr", 0);
    if (ftruncate(err_fd, 0)) {}
    lseek(err_fd, 0, SEEK_SET);
    fflush(stdout);
    pid_t pid = fork();
    if (pid < 0) { perror("fork"); exit(96); }
    if (pid == 0) {
        close(a[1]); close(b[0]);
        dup2(err_fd, 2);
        if (to_w >= 0) close(to_w);
        if (from_w >= 0) close(from_w);
        worker_main(a[0], b[1]);
#ifdef VERIF_COV
        { extern void __gcov_dump(void); __gcov_dump(); }
#endif
        _exit(0);
    }
    close(a[0]); close(b[1]);
    to_w = a[1]; from_w = b[0]; w_pid = pid;
}

/* the sanitizer's own one-line description of why the worker died */
static void fault_summary(int status, char* out, size_t outsz) {
    static char buf[1 << 16];
    ssize_t n = pread(err_fd, buf, sizeof buf - 1, 0);
    if (n < 0) n = 0;
    buf[n] = 0;
    const char* what = NULL; char tmp[400] = "";
    char* rt = strstr(buf, "runtime error: ");
    char* er = strstr(buf, "ERROR: AddressSanitizer: ");
    char* ls = strstr(buf, "ERROR: LeakSanitizer: ");
    char* sm = strstr(buf, "SUMMARY: ");
    if (er) {
        /* "ERROR: AddressSanitizer: heap-buffer-overflow on address ..." + "READ/WRITE of size" + summary location */
        char kind[80] = ""; sscanf(er + 25, "%79s", kind);
        if (!strcmp(kind, "attempting")) { char k2[40] = ""; sscanf(er + 25, "%*s %39s", k2); snprintf(kind, sizeof kind, "attempting-%s", k2); }
        char rw[16] = ""; char* q = strstr(er, "\nREAD of size"); char* w = strstr(er, "\nWRITE of size");
        if (q && (!w || q < w)) strcpy(rw, "READ"); else if (w) strcpy(rw, "WRITE");
        char loc[200] = "";
        if (sm) { char* l = strstr(sm, kind); if (l) sscanf(l + strlen(kind), " %199[^\n]", loc); }
        snprintf(tmp, sizeof tmp, "asan:%s %s %s", kind, rw, loc);
        what = tmp;
    } else if (rt) {
        /* "<file>:<line>:<col>: runtime error: <message>" */
        char* ls0 = rt; while (ls0 > buf && ls0[-1] != '\n') ls0--;
        char l[300] = ""; sscanf(ls0, "%299[^\n]", l);
        snprintf(tmp, sizeof tmp, "ubsan:%s", l);
        what = tmp;
    } else if (ls) {
        char l[200] = ""; if (sm) sscanf(sm, "%199[^\n]", l);
        snprintf(tmp, sizeof tmp, "lsan:%s", l);
        what = tmp;
    } else if (WIFSIGNALED(status)) {
        snprintf(tmp, sizeof tmp, "signal:%d", WTERMSIG(status));
        what = tmp;
    } else {
        snprintf(tmp, sizeof tmp, "exit:%d %.200s", WIFEXITED(status) ? WEXITSTATUS(status) : -1, buf);
        what = tmp;
    }
    snprintf(out, outsz, "%s", what);
    for (char* c = out; *c; c++) if (*c == '\n' || *c == '\r') *c = ' ';
}

static void reap(int* status) {
    close(to_w); close(from_w); to_w = from_w = -1;
    waitpid(w_pid, status, 0);
    w_pid = -1;
}

int main(int argc, char** argv) {
    (void)argc; (void)argv;
    const char* e = getenv("H_DEC_CPU_MS");
    if (e) cpu_ms = atol(e);
    long wall_ms = cpu_ms * 4 + 10000;
    /* hang budget: after HANG_LIMIT cases of one entry point ran out of their CPU / wall budget the rest of that
     * entry point's cases in this run are answered SKIP hang-budget, so that a non-terminating decoder is
     * reported (each hang with its input) without stalling the whole check */
    enum { HANG_LIMIT = 2, HANG_OPS = 64 };
    static char hang_op[HANG_OPS][24]; static int hang_n[HANG_OPS]; int nhang = 0;
    signal(SIGPIPE, SIG_IGN);
    int final_rc = 0;
    while (h_readline()) {
        if (!h_line[0]) { puts("SKIP empty"); continue; }
        char opname[24]; { size_t i = 0; while (h_line[i] && h_line[i] != ' ' && i < sizeof opname - 1) { opname[i] = h_line[i]; i++; } opname[i] = 0; }
        int hi = -1;
        for (int i = 0; i < nhang; i++) if (!strcmp(hang_op[i], opname)) hi = i;
        if (hi >= 0 && hang_n[hi] >= HANG_LIMIT) { printf("SKIP hang-budget %s\n", opname); continue; }
        if (w_pid < 0) spawn();
        size_t L = strlen(h_line);
        h_line[L] = '\n';
        ssize_t wr = write(to_w, h_line, L + 1);
        h_line[L] = 0;
        char ans[4096]; size_t got = 0; int done = 0, dead = 0, wall = 0;
        if (wr != (ssize_t)(L + 1)) dead = 1;
        while (!done && !dead) {
            struct pollfd pf = {from_w, POLLIN, 0};
            int pr = poll(&pf, 1, (int)wall_ms);
            if (pr == 0) { wall = 1; break; }
            if (pr < 0) { if (errno == EINTR) continue; dead = 1; break; }
            ssize_t rd = read(from_w, ans + got, sizeof ans - 1 - got);
            if (rd <= 0) { dead = 1; break; }
            got += (size_t)rd;
            ans[got] = 0;
            if (memchr(ans, '\n', got)) done = 1;
        }
        if (done) {
            *strchr(ans, '\n') = 0;
            puts(ans);
            if (!strncmp(ans, "TIMEOUT", 7) || !strncmp(ans, "SKIP harness", 12)) { int st; reap(&st); }
            if (!strncmp(ans, "TIMEOUT", 7)) {
                if (hi < 0 && nhang < HANG_OPS) { hi = nhang++; strcpy(hang_op[hi], opname); hang_n[hi] = 0; }
                if (hi >= 0) hang_n[hi]++;
            }
            fflush(stdout);
            continue;
        }
        if (wall) {
            kill(w_pid, SIGKILL);
            int st; reap(&st);
            printf("TIMEOUT wall %ld\n", wall_ms);
            if (hi < 0 && nhang < HANG_OPS) { hi = nhang++; strcpy(hang_op[hi], opname); hang_n[hi] = 0; }
            if (hi >= 0) hang_n[hi]++;
            fflush(stdout);
            continue;
        }
        int st; reap(&st);
        char sum[600];
        fault_summary(st, sum, sizeof sum);
        printf("FAULT %s\n", sum);
    }
    if (w_pid >= 0) {
        int st; reap(&st);
        if (!(WIFEXITED(st) && WEXITSTATUS(st) == 0)) {
            char sum[600];
            fault_summary(st, sum, sizeof sum);
            fprintf(stderr, "h_dec: worker failed at exit: %s\n", sum);
            final_rc = 97;
        }
    }
    fflush(stdout);
    return final_rc;
}
