/* Shared helpers for the correspondence drivers: line reader, hex <-> bytes with exact-size heap
 * buffers (so that a one-byte over-read/over-write is an ASan report), tokeniser. */
#ifndef HCOMMON_H
#define HCOMMON_H
#include <stdio.h>
#include <stdlib.h>
#include <string.h>
#include <stdint.h>
#include <inttypes.h>

static char* h_line = NULL;
static size_t h_cap = 0;

static int h_readline(void) {
    ssize_t n = getline(&h_line, &h_cap, stdin);
    if (n < 0) return 0;
    while (n > 0 && (h_line[n-1] == '\n' || h_line[n-1] == '\r')) h_line[--n] = 0;
    return 1;
}

#define H_MAXTOK 262144
static char* h_tok[H_MAXTOK];
static int h_ntok;
static void h_split(void) {
    h_ntok = 0;
    char* p = h_line;
    while (*p && h_ntok < H_MAXTOK) {
        while (*p == ' ') p++;
        if (!*p) break;
        h_tok[h_ntok++] = p;
        while (*p && *p != ' ') p++;
        if (*p) *p++ = 0;
    }
}

static int h_hexval(char c) {
    if (c >= '0' && c <= '9') return c - '0';
    if (c >= 'a' && c <= 'f') return c - 'a' + 10;
    if (c >= 'A' && c <= 'F') return c - 'A' + 10;
    return 0;
}

/* Decode hex into a malloc'd buffer of EXACTLY len bytes placed `align` bytes into an allocation
 * (base returned through *base for free()).  "-" is the empty string (returns a 0-byte allocation). */
static uint8_t* h_unhex(const char* s, size_t* len, size_t align, void** base) {
    size_t n = (s[0] == '-' && s[1] == 0) ? 0 : strlen(s) / 2;
    uint8_t* b = (uint8_t*)malloc(n + align);
    if (!b) abort();
    for (size_t i = 0; i < n; i++) b[align + i] = (uint8_t)(h_hexval(s[2*i]) * 16 + h_hexval(s[2*i+1]));
    *len = n;
    if (base) *base = b;
    return b + align;
}

static void h_puthex(const uint8_t* p, size_t n) {
    if (n == 0) { putchar('-'); return; }
    static const char d[] = "0123456789abcdef";
    for (size_t i = 0; i < n; i++) { putchar(d[p[i] >> 4]); putchar(d[p[i] & 15]); }
}

#endif
